package main

import (
	"go/ast"
	"strings"

	"promverif/eng"
)

func init() {
	register(&Property{
		ID:        "C19",
		Title:     "Merging series sets de-duplicates without losing data",
		Technique: "go/cfg conservation rules for the three merge heaps (every source taken off a heap is, on every path, advanced and put back while it has data, or kept as the current source); branch-arm and linear-normal-form rules for the de-duplication and overlap tests; sibling equality of the heap plumbing; call-shape rules for the merge querier",
		DesignRef: "DESIGN.md §5 C19",
		Level: "Decides structural necessary conditions only: no input series set, sample iterator or chunk iterator is dropped from a merge while it still has data (constructor, Next and Seek of genericMergeSeriesSet, chainSampleIterator, compactChunkIterator); " +
			"the heaps order by labels / timestamp / (min time, max time); a sample is skipped only when its timestamp equals the last one returned and the last timestamp is recorded on every successful return; chunks are merged only while the next chunk starts at or before the running max time and the current chunk is part of the merge; " +
			"errors of every input are reported; every querier behind a merge querier is asked for sorted series and every result enters the merge.",
		Note:           "Trusted: go/packages, go/types, go/cfg; rule tables in checker/c19.go.",
		Covers:         "storage: newGenericMergeSeriesSet, genericMergeSeriesSet.{Next,At,Err}, chainSampleIterator.{Next,Seek,Err}, compactChunkIterator.{Next,Err}, concatenatingChunkIterator.Next, the three heap types, mergeGenericQuerier.Select.",
		NotCover:       "that the merged output is sorted and duplicate-free for all inputs (heap invariants and timestamp order are runtime properties); which of several equal-timestamp samples wins; re-encoding of merged chunks.",
		Run:            runC19,
		MinObligations: 45,
	})
}

func runC19(c *eng.Ctx) {
	p := c.P
	S := "storage:"
	callFun := func(desc, fun string, argi int, arg string) eng.Matcher {
		return eng.Node(desc, func(g *eng.Graph, n ast.Node) bool {
			call, ok := n.(*ast.CallExpr)
			if !ok || eng.ExprString(call.Fun) != fun {
				return false
			}
			return argi < 0 || (argi < len(call.Args) && eng.ExprString(call.Args[argi]) == arg)
		})
	}
	stmt := func(text string) eng.Matcher {
		return eng.Node(text, func(g *eng.Graph, n ast.Node) bool { return nodeText(n) == text })
	}
	callText := func(text string) eng.Matcher {
		return eng.Node(text, func(g *eng.Graph, n ast.Node) bool {
			call, ok := n.(*ast.CallExpr)
			return ok && nodeText(call) == text
		})
	}
	stmtPrefix := func(text string) eng.Matcher {
		return eng.Node(text+"…", func(g *eng.Graph, n ast.Node) bool {
			_, isStmt := n.(ast.Stmt)
			return isStmt && strings.HasPrefix(nodeText(n), text)
		})
	}
	// ---- R1 series sets ----
	{
		nf := c.Fn(S + "newGenericMergeSeriesSet")
		push := callFun("heap.Push(&h, set)", "heap.Push", 1, "set")
		nf.Has("R1", push, 1)
		nf.Only("R1", push, "pushes a set exactly when its first Next() succeeded", func(l eng.Loc) bool { return nf.UnderCond(l, "set.Next()") })
		nf.AstEvery("R1", "pre-advance loop", func(n ast.Node) bool {
			rs, ok := n.(*ast.RangeStmt)
			return ok && strings.Contains(nodeText(rs.Body), "heap.Push(&h, set)")
		}, "ranges over all input sets", func(n ast.Node) bool { return eng.ExprString(n.(*ast.RangeStmt).X) == "sets" }, 1)
		nf.FailLeadsTo("R1", eng.OnVar("set", "Err"), eng.Return("return errorOnlySeriesSet{err}", func(g *eng.Graph, rs *ast.ReturnStmt) bool {
			return len(rs.Results) == 1 && eng.ExprString(rs.Results[0]) == "errorOnlySeriesSet{…}"
		}), nil)
		ls := nf.LitTexts(S + "genericMergeSeriesSet")
		what := "the merged set keeps all input sets (for Err/Warnings), the heap, the limit and the merge function"
		if len(ls) == 1 && ls[0]["sets"] == "sets" && ls[0]["heap"] == "h" && ls[0]["seriesLimit"] == "seriesLimit" && ls[0]["mergeFunc"] == "mergeFunc" {
			c.Pass("R1", nf.Where(), what, "")
		} else {
			c.Fail("R1", nf.Where(), what, p.Pos(nf.Body.Pos()), "genericMergeSeriesSet literal differs")
		}

		nx := c.Fn(S + "genericMergeSeriesSet.Next")
		repush := callFun("heap.Push(&c.heap, set)", "heap.Push", 1, "set")
		truncate := stmt("c.currentSets = c.currentSets[:0]")
		pop := stmtPrefix("set := heap.Pop(&c.heap)")
		keep := stmt("c.currentSets = append(c.currentSets, set)")
		nx.Has("R1", repush, 1)
		nx.Only("R1", repush, "re-inserts a consumed set exactly when it has a next series", func(l eng.Loc) bool { return nx.UnderCond(l, "set.Next()") })
		nx.AstEvery("R1", "advance loop", func(n ast.Node) bool {
			rs, ok := n.(*ast.RangeStmt)
			return ok && strings.Contains(nodeText(rs.Body), "heap.Push(&c.heap, set)")
		}, "ranges over the sets that produced the current series", func(n ast.Node) bool {
			return eng.ExprIsField(nx.Info, n.(*ast.RangeStmt).X, p.Field(S+"genericMergeSeriesSet.currentSets"))
		}, 1)
		nx.Has("R1", truncate, 1)
		nx.Dom("R1", eng.LoopOver(repush), truncate) // the consumed sets are advanced before the list is reused
		nx.Has("R1", pop, 1)
		nx.ConsumedBefore("R1", pop, keep, pop) // every set taken off the heap joins the current group
		nx.Dom("R1", truncate, pop)
		nx.Only("R1", p.Store(S+"genericMergeSeriesSet.currentLabels"), "takes the labels of the heap's smallest series", func(l eng.Loc) bool {
			return nodeText(l.Node) == "c.currentLabels = c.heap[0].At().Labels()"
		})
		nx.Dom("R1", p.Store(S+"genericMergeSeriesSet.currentLabels"), pop)
		nx.AstEvery("R1", "group loop", func(n ast.Node) bool {
			fs, ok := n.(*ast.ForStmt)
			return ok && fs.Cond != nil && strings.Contains(nodeText(fs.Body), "heap.Pop(&c.heap)")
		}, "pops while the heap's smallest series has the current labels", func(n ast.Node) bool {
			return eng.ExprString(n.(*ast.ForStmt).Cond) == "len(c.heap) > 0 && labels.Equal(c.currentLabels, c.heap[0].At().Labels())"
		}, 1)
		ls2 := c.Fn(S + "genericSeriesSetHeap.Less")
		ls2.Only("R1", eng.Return("return", func(g *eng.Graph, rs *ast.ReturnStmt) bool { return true }), "orders by label comparison of element i against element j", func(l eng.Loc) bool {
			return nodeText(l.Node) == "return labels.Compare(a, b) < 0"
		})
		ls2.Only("R1", eng.AssignVar("a"), "a is element i, b is element j", func(l eng.Loc) bool {
			return nodeText(l.Node) == "a, b := h[i].At().Labels(), h[j].At().Labels()"
		})
		at := c.Fn(S + "genericMergeSeriesSet.At")
		at.AstEvery("R1", "collect loop", func(n ast.Node) bool { _, ok := n.(*ast.RangeStmt); return ok }, "hands every set of the current group to the merge function", func(n ast.Node) bool {
			rs := n.(*ast.RangeStmt)
			return eng.ExprIsField(at.Info, rs.X, p.Field(S+"genericMergeSeriesSet.currentSets")) && strings.Contains(nodeText(rs.Body), "series = append(series, seriesSet.At())")
		}, 1)
		at.Only("R1", eng.Return("return", func(g *eng.Graph, rs *ast.ReturnStmt) bool { return true }), "returns the single series or the merge of the collected ones", func(l eng.Loc) bool {
			t := nodeText(l.Node)
			return (t == "return c.currentSets[0].At()" && at.UnderCond(l, "len(c.currentSets) == 1")) || t == "return c.mergeFunc(series...)"
		})
		er := c.Fn(S + "genericMergeSeriesSet.Err")
		er.AstEvery("R1", "error loop", func(n ast.Node) bool { _, ok := n.(*ast.RangeStmt); return ok }, "ranges over all input sets", func(n ast.Node) bool {
			return eng.ExprIsField(er.Info, n.(*ast.RangeStmt).X, p.Field(S+"genericMergeSeriesSet.sets"))
		}, 1)
		er.ErrPropagates("R1", eng.OnVar("set", "Err"), 1)
	}
	// ---- R2 sample iterators ----
	{
		nx := c.Fn(S + "chainSampleIterator.Next")
		advance := stmt("currValueType = c.curr.Next()")
		pushCur := callFun("heap.Push(&c.h, c.curr)", "heap.Push", 1, "c.curr")
		popCur := stmtPrefix("c.curr = heap.Pop(&c.h)")
		live := stmt("currT = c.curr.AtT()") // first statement of the arm in which the current iterator still has a sample
		nx.Has("R2", advance, 1)
		nx.Has("R2", pushCur, 1)
		nx.Has("R2", popCur, 1)
		// the current iterator is replaced only after it was put back on the heap, or after it ran dry
		liveInArm := eng.Node("currT = c.curr.AtT() in the arm where the current iterator has a sample", func(g *eng.Graph, n ast.Node) bool {
			return nodeText(n) == "currT = c.curr.AtT()"
		})
		var armLive []eng.Loc
		for _, l := range nx.Find(liveInArm) {
			if nx.UnderCondFalse(l, "currValueType == chunkenc.ValNone") {
				armLive = append(armLive, l)
			}
		}
		if len(armLive) != 1 {
			c.Fail("R2", nx.Where(), "the live arm of the merge loop starts with currT = c.curr.AtT()", p.Pos(nx.Body.Pos()), "arm not found")
		} else {
			first := eng.Node("currT = c.curr.AtT() (live arm)", func(g *eng.Graph, n ast.Node) bool { return n == armLive[0].Node })
			nx.PassesBetween("R2", first, eng.Or(pushCur, advance), popCur)
		}
		_ = live
		// an exhausted current iterator is dropped only when it reported no error, and the merge ends only when the heap is empty
		nx.Only("R2", stmt("c.curr = nil"), "ends the merge only when no iterator is left", func(l eng.Loc) bool {
			return nx.UnderCond(l, "len(c.h) == 0") && nx.UnderCond(l, "currValueType == chunkenc.ValNone")
		})
		// duplicates: a sample is skipped only for an equal timestamp; the timestamp is recorded on every successful return
		conts := nx.Branches("continue")
		if len(conts) == 1 && len(conts[0].Conds) > 0 && conts[0].Conds[len(conts[0].Conds)-1] == "currT == c.lastT=T" {
			c.Pass("R2", nx.Where(), "the merge loop skips a sample (`continue`) only under currT == c.lastT", conts[0].Pos)
		} else {
			c.Fail("R2", nx.Where(), "the merge loop skips a sample (`continue`) only under currT == c.lastT", p.Pos(nx.Body.Pos()), "1 skip under that test confirmed by reading")
		}
		lastT := p.Store(S + "chainSampleIterator.lastT")
		nx.Only("R2", lastT, "records the timestamp being returned", func(l eng.Loc) bool { return nodeText(l.Node) == "c.lastT = currT" })
		nx.Dom("R2", lastT, eng.Return("return of a sample", func(g *eng.Graph, rs *ast.ReturnStmt) bool {
			return len(rs.Results) == 1 && eng.ExprString(rs.Results[0]) == "currValueType"
		}))
		// after switching iterators, the sample is re-checked against the last timestamp
		nx.AllPaths("R2", popCur, eng.CondTest("currT != c.lastT"), eng.AnyExit)
		nx.Only("R2", eng.AssignVar("nextT"), "is the timestamp at the top of the heap", func(l eng.Loc) bool { return nodeText(l.Node) == "nextT := c.h[0].AtT()" })
		// staying on the current iterator requires it to be at or before the heap's top
		brk := nx.Branches("break")
		okBreaks := 0
		for _, b := range brk {
			inner := ""
			if len(b.Conds) > 0 {
				inner = b.Conds[len(b.Conds)-1]
			}
			lin := strings.Join(b.Lin, " ; ")
			switch {
			case strings.Contains(lin, "+1*currT -1*nextT < 0") || strings.Contains(lin, "+1*currT -1*nextT -1 < 0"):
				okBreaks++
			case inner == "len(c.h) == 0=T", inner == "currT != c.lastT=T":
				okBreaks++
			default:
				c.Fail("R2", nx.Where(), "the loop is left only when the current sample is new and not after the heap's top", b.Pos, "conditions: "+strings.Join(b.Conds, " ; "))
			}
		}
		if len(brk) != 3 {
			c.Fail("R2", nx.Where(), "the loop is left only when the current sample is new and not after the heap's top", p.Pos(nx.Body.Pos()), "3 loop exits confirmed by reading")
		} else if okBreaks == 3 {
			c.Pass("R2", nx.Where(), "the loop is left only when the current sample is new and not after the heap's top", "3 exits")
		}
		// start-up: the first iterator becomes current, every other one with a sample goes on the heap
		startPush := callFun("heap.Push(&c.h, iter)", "heap.Push", 1, "iter")
		nx.Has("R2", startPush, 1)
		nx.Only("R2", startPush, "happens exactly when the iterator's first Next() found a sample", func(l eng.Loc) bool {
			return nx.UnderCondFalse(l, "iter.Next() == chunkenc.ValNone")
		})
		nx.AstEvery("R2", "start-up loop", func(n ast.Node) bool {
			rs, ok := n.(*ast.RangeStmt)
			return ok && strings.Contains(nodeText(rs.Body), "heap.Push(&c.h, iter)")
		}, "ranges over every iterator but the first", func(n ast.Node) bool { return eng.ExprString(n.(*ast.RangeStmt).X) == "c.iterators[1:]" }, 1)
		nx.Has("R2", stmt("c.curr = c.iterators[0]"), 1)

		sk := c.Fn(S + "chainSampleIterator.Seek")
		skPush := callFun("heap.Push(&c.h, iter)", "heap.Push", 1, "iter")
		sk.Has("R2", skPush, 1)
		sk.AstEvery("R2", "seek loop", func(n ast.Node) bool {
			rs, ok := n.(*ast.RangeStmt)
			return ok && strings.Contains(nodeText(rs.Body), "heap.Push(&c.h, iter)")
		}, "ranges over all iterators and skips one only when its Seek found nothing", func(n ast.Node) bool {
			rs := n.(*ast.RangeStmt)
			return eng.ExprIsField(sk.Info, rs.X, p.Field(S+"chainSampleIterator.iterators")) && strings.Contains(nodeText(rs.Body), "if iter.Seek(t) == chunkenc.ValNone {")
		}, 1)
		sk.Only("R2", skPush, "is skipped only when Seek found nothing", func(l eng.Loc) bool { return sk.UnderCondFalse(l, "iter.Seek(t) == chunkenc.ValNone") })
		sk.Dom("R2", stmt("c.h = samplesIteratorHeap{}"), eng.LoopOver(skPush))
		skPop := stmtPrefix("c.curr = heap.Pop(&c.h)")
		sk.Has("R2", skPop, 1)
		sk.Dom("R2", eng.LoopOver(skPush), skPop)
		sk.Only("R2", p.Store(S+"chainSampleIterator.lastT"), "records the timestamp of the iterator taken off the heap", func(l eng.Loc) bool {
			return nodeText(l.Node) == "c.lastT = c.curr.AtT()"
		})
		sk.Dom("R2", skPop, p.Store(S+"chainSampleIterator.lastT"))
		ls := c.Fn(S + "samplesIteratorHeap.Less")
		ls.Only("R2", eng.Return("return", func(g *eng.Graph, rs *ast.ReturnStmt) bool { return true }), "orders by timestamp of element i against element j", func(l eng.Loc) bool {
			return nodeText(l.Node) == "return h[i].AtT() < h[j].AtT()"
		})
		er := c.Fn(S + "chainSampleIterator.Err")
		er.AstEvery("R2", "error loop", func(n ast.Node) bool { _, ok := n.(*ast.RangeStmt); return ok }, "collects the error of every iterator", func(n ast.Node) bool {
			rs := n.(*ast.RangeStmt)
			return eng.ExprIsField(er.Info, rs.X, p.Field(S+"chainSampleIterator.iterators")) && strings.Contains(nodeText(rs.Body), "errs = append(errs, iter.Err())")
		}, 1)
		gi := c.Fn(S + "getChainSampleIterator")
		gi.DomOK("R2", stmt("csi.h = nil"))
		gi.DomOK("R2", stmt("csi.lastT = math.MinInt64"))
		for _, fn := range []string{"ChainSampleIteratorFromSeries", "ChainSampleIteratorFromIterables"} {
			f := c.Fn(S + fn)
			f.AstEvery("R2", "fill loop", func(n ast.Node) bool { _, ok := n.(*ast.RangeStmt); return ok }, "gives slot i the iterator of input i", func(n ast.Node) bool {
				t := nodeText(n.(*ast.RangeStmt).Body)
				return strings.Contains(t, "csi.iterators[i] = s.Iterator(csi.iterators[i])") || strings.Contains(t, "csi.iterators[i] = c.Iterator(csi.iterators[i])")
			}, 1)
		}
	}
	// ---- R3 chunk iterators ----
	{
		nx := c.Fn(S + "compactChunkIterator.Next")
		pop := stmtPrefix("iter := heap.Pop(&c.h)")
		adv := eng.CondTest("iter.Next()")
		push := callFun("heap.Push(&c.h, iter)", "heap.Push", 1, "iter")
		nx.Has("R3", pop, 2)
		nx.Has("R3", push, 4)
		nx.Only("R3", push, "re-inserts an iterator exactly when it has a next chunk", func(l eng.Loc) bool { return nx.UnderCond(l, "iter.Next()") })
		nx.ConsumedBefore("R3", pop, adv, pop) // every iterator taken off the heap is advanced before the next one is taken or Next returns
		nx.AstEvery("R3", "start-up loop", func(n ast.Node) bool {
			rs, ok := n.(*ast.RangeStmt)
			return ok && strings.Contains(nodeText(rs.Body), "heap.Push(&c.h, iter)")
		}, "ranges over all iterators", func(n ast.Node) bool {
			return eng.ExprIsField(nx.Info, n.(*ast.RangeStmt).X, p.Field(S+"compactChunkIterator.iterators"))
		}, 1)
		// the chunk read from a popped iterator is kept before the iterator moves on
		var firstPop []eng.Loc
		for _, l := range nx.Find(pop) {
			if !nx.UnderCond(l, "len(c.h) > 0") {
				firstPop = append(firstPop, l)
			}
		}
		if len(firstPop) == 1 {
			fp := eng.Node("the pop of the oldest chunk's iterator", func(g *eng.Graph, n ast.Node) bool { return n == firstPop[0].Node })
			nx.PassesBetween("R3", fp, stmt("c.curr = iter.At()"), adv) // its chunk is read before it moves on
		} else {
			c.Fail("R3", nx.Where(), "the chunk of the popped iterator is read before it moves on", p.Pos(nx.Body.Pos()), "first pop not found")
		}
		nx.Only("R3", eng.AssignVar("next"), "is the chunk at the top of the heap", func(l eng.Loc) bool { return nodeText(l.Node) == "next := c.h[0].At()" })
		// overlap scan ends only at a chunk starting after the running max time
		cb := nx.Branches("break")
		if len(cb) == 1 && len(cb[0].Lin) == 1 && cb[0].Lin[0] == "-1*next.MinTime +1*oMaxTime < 0" {
			c.Pass("R3", nx.Where(), "the overlap scan ends exactly under next.MinTime > oMaxTime", cb[0].Pos)
		} else {
			c.Fail("R3", nx.Where(), "the overlap scan ends exactly under next.MinTime > oMaxTime", p.Pos(nx.Body.Pos()), "1 break under that test confirmed by reading")
		}
		nx.Only("R3", eng.AssignVar("oMaxTime"), "starts at the current chunk's max time and grows to the largest max time merged", func(l eng.Loc) bool {
			t := nodeText(l.Node)
			if t == "oMaxTime = max(oMaxTime, next.MaxTime)" || t == "oMaxTime = max(next.MaxTime, oMaxTime)" {
				return true
			}
			if t == "oMaxTime = next.MaxTime" {
				for _, g := range nx.GuardsOf(l) {
					if g == "-1*next.MaxTime +1*oMaxTime < 0" {
						return true
					}
				}
				return false
			}
			return strings.Contains(t, "oMaxTime    = c.curr.MaxTime") || strings.Contains(t, "oMaxTime = c.curr.MaxTime")
		})
		nx.Has("R3", eng.Or(stmt("oMaxTime = next.MaxTime"), stmt("oMaxTime = max(oMaxTime, next.MaxTime)"), stmt("oMaxTime = max(next.MaxTime, oMaxTime)")), 1)
		collect := stmtPrefix("overlapping = append(overlapping, newChunkToSeriesDecoder(labels.EmptyLabels(), next))")
		nx.Has("R3", collect, 1)
		merge := eng.Node("c.mergeFunc(append(overlapping, …c.curr)...)", func(g *eng.Graph, n ast.Node) bool {
			call, ok := n.(*ast.CallExpr)
			return ok && eng.ExprString(call.Fun) == "c.mergeFunc"
		})
		nx.Has("R3", merge, 1)
		nx.GivenBranch("len(overlapping) == 0", false).Dom("R3", merge, eng.Return("success return", func(g *eng.Graph, rs *ast.ReturnStmt) bool {
			return len(rs.Results) == 1 && eng.ExprString(rs.Results[0]) == "true"
		})) // when something overlapped, Next succeeds only with the merged chunk
		nx.Only("R3", merge, "merges the overlapping chunks together with the current chunk", func(l eng.Loc) bool {
			a := eng.CallArgsText(l)
			return len(a) == 1 && a[0] == "append(overlapping, newChunkToSeriesDecoder(labels.EmptyLabels(), c.curr))"
		})
		ls := c.Fn(S + "chunkIteratorHeap.Less")
		ls.Only("R3", eng.Return("return", func(g *eng.Graph, rs *ast.ReturnStmt) bool { return true }), "orders by min time, then max time", func(l eng.Loc) bool {
			t := nodeText(l.Node)
			return (t == "return at.MaxTime < bt.MaxTime" && ls.UnderCond(l, "at.MinTime == bt.MinTime")) || t == "return at.MinTime < bt.MinTime"
		})
		ls.Has("R3", eng.Return("tie-break on max time", func(g *eng.Graph, rs *ast.ReturnStmt) bool { return nodeText(rs) == "return at.MaxTime < bt.MaxTime" }), 1)
		ls.Only("R3", eng.AssignVar("at"), "is element i", func(l eng.Loc) bool { return nodeText(l.Node) == "at := h[i].At()" })
		ls.Only("R3", eng.AssignVar("bt"), "is element j", func(l eng.Loc) bool { return nodeText(l.Node) == "bt := h[j].At()" })
		er := c.Fn(S + "compactChunkIterator.Err")
		er.AstEvery("R3", "error loop", func(n ast.Node) bool { _, ok := n.(*ast.RangeStmt); return ok }, "collects the error of every iterator", func(n ast.Node) bool {
			rs := n.(*ast.RangeStmt)
			return eng.ExprIsField(er.Info, rs.X, p.Field(S+"compactChunkIterator.iterators")) && strings.Contains(nodeText(rs.Body), "errs = append(errs, iter.Err())")
		}, 1)
		er.Has("R3", stmt("errs = append(errs, c.err)"), 1)
		cc := c.Fn(S + "concatenatingChunkIterator.Next")
		cc.Only("R3", stmt("c.idx++"), "moves on only after the current iterator ended without error", func(l eng.Loc) bool {
			return cc.UnderCondFalse(l, "c.iterators[c.idx].Next()") && cc.UnderCondFalse(l, "c.iterators[c.idx].Err() != nil")
		})
	}
	// ---- R6 re-encoding of merged chunks: each chunk's meta describes its own samples ----
	{
		en := c.Fn(S + "seriesToChunkEncoder.Iterator")
		cut := stmt("chks = appendChunk(chks, mint, maxt, chk)")
		en.Has("R6", cut, 4)
		setMax := stmt("maxt = t")
		en.Has("R6", setMax, 1)
		// after a chunk is cut inside the sample loop, the new chunk's min time is re-established before this sample's time is recorded
		en.PassesBetween("R6", cut, eng.AssignVar("mint"), setMax)
		en.Dom("R6", setMax, stmt("i++"))
		en.Only("R6", eng.AssignVar("t"), "is the timestamp of the sample just appended", func(l eng.Loc) bool {
			if _, ok := l.Node.(*ast.AssignStmt); !ok {
				return true
			}
			t := nodeText(l.Node)
			return t == "t, v = seriesIter.At()" || t == "t, h = seriesIter.AtHistogram(nil)" || t == "t, fh = seriesIter.AtFloatHistogram(nil)"
		})
		en.SwitchCovers("R6", "tsdb/chunkenc:ValueType", 1, map[string]string{"ValNone": "the sample loop ends on ValNone"})
		// the last open chunk is emitted on every successful return
		var lastCut eng.Loc
		for _, l := range en.Find(cut) {
			if lastCut.Node == nil || l.Node.Pos() > lastCut.Node.Pos() {
				lastCut = l
			}
		}
		finalCut := eng.Node("the appendChunk after the sample loop", func(g *eng.Graph, n ast.Node) bool { return n == lastCut.Node })
		en.Dom("R6", finalCut, eng.Or(callText("lcsi.Reset(chks...)"), callText("NewListChunkSeriesIterator(chks...)")))
		en.FailLeadsTo("R6", eng.OnVar("seriesIter", "Err"), eng.Return("return errChunksIterator{…}", func(g *eng.Graph, rs *ast.ReturnStmt) bool {
			return len(rs.Results) == 1 && strings.HasPrefix(eng.ExprString(rs.Results[0]), "errChunksIterator{")
		}), nil)
		// a chunk handed back by the histogram appenders replaces the open chunk; the old one is emitted unless it was recoded in place
		en.AstEvery("R6", "handling of a new chunk returned by the histogram appender", func(n ast.Node) bool {
			is, ok := n.(*ast.IfStmt)
			return ok && eng.ExprString(is.Cond) == "newChk != nil"
		}, "emits the old chunk unless recoded, then continues with the new one", func(n ast.Node) bool {
			t := nodeText(n.(*ast.IfStmt).Body)
			return strings.Contains(t, "if !recoded { chks = appendChunk(chks, mint, maxt, chk)") && strings.HasSuffix(t, "chk = newChk }")
		}, 2)
		ac := c.Fn(S + "appendChunk")
		ac.LitIs("R6", "tsdb/chunks:Meta", 1, map[string]string{"MinTime": "mint", "MaxTime": "maxt", "Chunk": "chk"})
	}
	// ---- R4 heap plumbing: the three heaps differ only in element type ----
	{
		c.SiblingsEqual("R4", S+"genericSeriesSetHeap.Pop", S+"samplesIteratorHeap.Pop", nil, nil)
		c.SiblingsEqual("R4", S+"genericSeriesSetHeap.Pop", S+"chunkIteratorHeap.Pop", nil, nil)
		for _, h := range [][2]string{{"genericSeriesSetHeap", "genericSeriesSet"}, {"samplesIteratorHeap", "chunkenc.Iterator"}, {"chunkIteratorHeap", "chunks.Iterator"}} {
			f := c.Fn(S + h[0] + ".Push")
			f.Has("R4", stmt("*h = append(*h, x.("+h[1]+"))"), 1)
			sw := c.Fn(S + h[0] + ".Swap")
			sw.Has("R4", stmt("h[i], h[j] = h[j], h[i]"), 1)
		}
	}
	// ---- R5 merge querier ----
	{
		sel := c.Fn(S + "mergeGenericQuerier.Select")
		for i, qsel := range []eng.Matcher{eng.OnVar("querier", "Select"), eng.OnVar("qr", "Select")} {
			sel := sel
			if i == 1 {
				sel = sel.Closure("selectGo", qsel)
			}
			sel.Has("R5", qsel, 1)
			sel.Only("R5", qsel, "asks for sorted series with the caller's hints", func(l eng.Loc) bool {
				a := eng.CallArgsText(l)
				return len(a) == 4 && a[1] == "true" && a[2] == "hints"
			})
		}
		sel.AstEvery("R5", "loop over queriers", func(n ast.Node) bool {
			rs, ok := n.(*ast.RangeStmt)
			return ok && eng.ExprString(rs.X) == "q.queriers"
		}, "selects from every querier", func(n ast.Node) bool {
			t := nodeText(n.(*ast.RangeStmt).Body)
			return strings.Contains(t, "querier.Select(ctx, true, hints, matchers...)") || strings.Contains(t, "}(querier, matchersCopy)")
		}, 2)
		sel.AstEvery("R5", "loop draining the result channel", func(n ast.Node) bool {
			rs, ok := n.(*ast.RangeStmt)
			return ok && eng.ExprString(rs.X) == "seriesSetChan"
		}, "keeps every result", func(n ast.Node) bool {
			return strings.Contains(nodeText(n.(*ast.RangeStmt).Body), "seriesSets = append(seriesSets, r)")
		}, 1)
		mk := eng.Node("newGenericMergeSeriesSet(seriesSets, limit, q.mergeFn)", func(g *eng.Graph, n ast.Node) bool {
			call, ok := n.(*ast.CallExpr)
			return ok && nodeText(call) == "newGenericMergeSeriesSet(seriesSets, limit, q.mergeFn)"
		}).InClosures()
		sel.Has("R5", mk, 2)
	}
}
