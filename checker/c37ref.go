package main

import (
	"fmt"
	"go/types"
	"sort"
	"strings"

	"promverif/eng"
)

// C37.R5 (added for seed C37-c): the scrape cache tracks which series were seen in maps keyed by the storage's series
// reference.  When the storage hands back a different reference for a cached series, every such map (found by type:
// map[storage.SeriesRef]*cacheEntry fields of scrapeCache) has to be re-keyed before the entry's reference changes;
// an entry left under the old reference looks like a vanished series at the next scrape and gets a staleness marker
// although it is still exposed.
func runC37Ref(c *eng.Ctx) {
	p := c.P
	sc := p.Named("scrape:scrapeCache")
	st := sc.Underlying().(*types.Struct)
	var maps []string
	for i := 0; i < st.NumFields(); i++ {
		if m, ok := st.Field(i).Type().(*types.Map); ok && strings.HasSuffix(m.Key().String(), "storage.SeriesRef") && strings.HasSuffix(m.Elem().String(), "cacheEntry") {
			maps = append(maps, st.Field(i).Name())
		}
	}
	sort.Strings(maps)
	c.Check("R5", "scrape:scrapeCache", "reference-keyed tracking maps found (≥ 2)", len(maps) >= 2, "", strings.Join(maps, ", "))
	f := c.Fn("scrape:scrapeCache.updateRef")
	body := nodeText(f.Body)
	var missing []string
	for _, m := range maps {
		if !strings.Contains(body, "moveStaleness(c."+m+", ce, ref)") {
			missing = append(missing, m)
		}
	}
	c.Check("R5", f.Where(), fmt.Sprintf("re-keys every reference-keyed tracking map (%s) when the reference of a cached series changes", strings.Join(maps, ", ")), len(missing) == 0, p.Pos(f.Body.Pos()),
		"not re-keyed: "+strings.Join(missing, ", "))
	f.GivenBranch("ce.ref != 0", true).Dom("R5", p.Call("scrape:moveStaleness"), p.Store("scrape:cacheEntry.ref")) // before a tracked entry forgets its old reference
}
