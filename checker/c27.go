package main

import (
	"go/ast"
	"strings"

	"promverif/eng"
)

func init() {
	register(&Property{
		ID:             "C27",
		Title:          "A range query equals instant queries at each step",
		Technique:      "field-transfer comparison of the two evaluator literals of Engine.execEvalStmt (an instant query is a range query with one step: every field but the three time fields agrees); go/cfg and linear-form rules for the step loops of rangeEval / rangeEvalAgg and for gatherVector (each step sees exactly the samples at its own timestamp, writes its result at that timestamp, and starts from re-initialised per-step buffers); the window-reuse rules of C28.R2 are the part of this property that concerns range vectors",
		DesignRef:      "DESIGN.md §5 C27",
		Level:          "Decides that both kinds of query run the same evaluator code with parameters that differ only in (start, end, interval): the instant evaluator is built with start = end and one step, all other fields equal to the range evaluator's; the step loop visits start, start+interval, … ≤ end; at each step the helper's time is the step time, the input vectors are gathered for that time from samples whose timestamp equals it, the result is recorded at it; the output buffer and the signature buffers are re-initialised per step; per-step offsets are applied identically (C28.R1/R3: reference time = step time − offset). Does not decide that the functions evaluated at a step are free of state carried from earlier steps.",
		Note:           "Trusted: go/packages, go/types, go/cfg; rule tables in checker/c27.go.",
		Covers:         "promql: Engine.execEvalStmt (evaluator literals), evaluator.rangeEval, evaluator.gatherVector, evaluator.rangeEvalAgg (step loop).",
		NotCover:       "state that individual functions or aggregations keep across steps (EvalNodeHelper caches), float results, the storage iterators; the incremental range-vector window is decided under C28.R2.",
		Run:            runC27,
		MinObligations: 55,
	})
}

func runC27(c *eng.Ctx) {
	defer runC27Visit(c)
	p := c.P
	Q := "promql:"
	stmt := func(text string) eng.Matcher {
		return eng.Node(text, func(g *eng.Graph, n ast.Node) bool { return nodeText(n) == text })
	}
	// ---- R1 one evaluator, two parameterisations ----
	ex := c.Fn(Q + "Engine.execEvalStmt")
	ls := ex.LitTexts(Q + "evaluator")
	ok := len(ls) == 2
	detail := ""
	if ok {
		inst, rng := ls[0], ls[1]
		if inst["interval"] != "1" {
			inst, rng = rng, inst
		}
		ok = inst["startTimestamp"] == "start" && inst["endTimestamp"] == "start" && inst["interval"] == "1" &&
			rng["startTimestamp"] == "timeMilliseconds(s.Start)" && rng["endTimestamp"] == "timeMilliseconds(s.End)" && rng["interval"] == "durationMilliseconds(s.Interval)"
		for k, v := range rng {
			if k == "startTimestamp" || k == "endTimestamp" || k == "interval" || k == "@pos" {
				continue
			}
			if inst[k] != v {
				ok = false
				detail += k + ": " + inst[k] + " vs " + v + "; "
			}
		}
		for k := range inst {
			if _, has := rng[k]; !has {
				ok = false
				detail += k + " only in the instant evaluator; "
			}
		}
	}
	c.Check("R1", ex.Where(), "the instant evaluator is the range evaluator with start = end and one step: every other field is built from the same expression", ok, p.Pos(ex.Body.Pos()), detail)
	ex.Only("R1", eng.AssignVar("start"), "is the statement's start time", func(l eng.Loc) bool { return nodeText(l.Node) == "start := timeMilliseconds(s.Start)" })
	evalCall := eng.OnVar("evaluator", "Eval")
	ex.Has("R1", evalCall, 2)
	ex.Only("R1", evalCall, "evaluates the statement's expression", func(l eng.Loc) bool {
		a := eng.CallArgsText(l)
		return len(a) == 2 && a[1] == "s.Expr"
	})
	// ---- R2 the step loop ----
	for _, fn := range []string{"evaluator.rangeEval", "evaluator.rangeEvalAgg"} {
		f := c.Fn(Q + fn)
		f.AstEvery("R2", "step loop", func(n ast.Node) bool {
			fs, ok := n.(*ast.ForStmt)
			return ok && fs.Init != nil && strings.HasPrefix(nodeText(fs.Init), "ts := ev.startTimestamp")
		}, "visits start, start+interval, … ≤ end", func(n ast.Node) bool {
			fs := n.(*ast.ForStmt)
			l, okL := eng.LinearCmp(f.Info, fs.Cond)
			return okL && l == "-1*ev.endTimestamp +1*ts -1 < 0" && nodeText(fs.Post) == "ts += ev.interval"
		}, 1)
	}
	re := c.Fn(Q + "evaluator.rangeEval")
	call := eng.Node("funcCall(vectors, nil, bufHelpers, enh)", func(g *eng.Graph, n ast.Node) bool {
		cl, ok := n.(*ast.CallExpr)
		return ok && nodeText(cl) == "funcCall(vectors, nil, bufHelpers, enh)"
	})
	re.Has("R2", call, 1)
	setTs := stmt("enh.Ts = ts")
	re.PassesBetween("R2", eng.CondTest("ts <= ev.endTimestamp"), setTs, call) // in every iteration the helper's time is set before the call
	gather := p.Call(Q + "evaluator.gatherVector")
	re.Only("R2", gather, "gathers the inputs for this step's time", func(l eng.Loc) bool {
		a := eng.CallArgsText(l)
		return len(a) == 5 && a[0] == "ts" && a[1] == "matrixes[i]" && a[2] == "vectors[i]"
	})
	re.PassesBetween("R2", eng.CondTest("ts <= ev.endTimestamp"), eng.LoopOver(gather), call) // the gathering loop runs in every iteration before the call
	re.Only("R2", p.Call(Q+"addToSeries"), "records the step's result at the step's time", func(l eng.Loc) bool {
		a := eng.CallArgsText(l)
		return len(a) == 5 && a[1] == "enh.Ts" && a[2] == "sample.F" && a[3] == "sample.H"
	})
	re.PassesBetween("R2", call, stmt("enh.Out = result[:0]"), call) // the output buffer is truncated between two steps
	re.Only("R2", eng.AssignVar("bh"), "starts from an empty signature buffer at each step", func(l eng.Loc) bool {
		if _, isA := l.Node.(*ast.AssignStmt); !isA {
			return true
		}
		t := nodeText(l.Node)
		return t == "bh = bufHelpers[i][:0]" || t == "vectors[i], bh = ev.gatherVector(ts, matrixes[i], vectors[i], bh, sh)"
	})
	// ---- R3 gatherVector: exactly the samples at ts ----
	gv := c.Fn(Q + "evaluator.gatherVector")
	gv.DomOK("R3", stmt("output = output[:0]"))
	var conds []string
	ast.Inspect(gv.Body, func(n ast.Node) bool {
		if cc, ok := n.(*ast.CaseClause); ok && len(cc.List) == 1 {
			if be, ok := cc.List[0].(*ast.BinaryExpr); ok && be.Op.String() == "&&" {
				if l, okL := eng.LinearCmp(gv.Info, be.Y); okL {
					conds = append(conds, nodeText(be.X)+" && "+l)
				}
			}
		}
		return true
	})
	c.Check("R3", gv.Where(), "a series contributes to a step exactly when its next float or histogram has the step's timestamp", len(conds) == 2 && conds[0] == "len(series.Floats) > 0 && +1*series.Floats[0].T -1*ts == 0" && conds[1] == "len(series.Histograms) > 0 && +1*series.Histograms[0].T -1*ts == 0", p.Pos(gv.Body.Pos()), strings.Join(conds, " | "))
	for _, k := range [][2]string{{"Floats", "F: s.F"}, {"Histograms", "H: s.H"}} {
		k := k
		adv := stmt("input[i]." + k[0] + " = series." + k[0] + "[1:]")
		gv.Has("R3", adv, 1)
		gv.Only("R3", adv, "consumes the sample just emitted (same block as its append)", func(l eng.Loc) bool {
			for _, a := range gv.Find(eng.Node("append of the sample", func(g *eng.Graph, n ast.Node) bool {
				return strings.HasPrefix(nodeText(n), "output = append(output, Sample{Metric: series.Metric, "+k[1]+", T: ts")
			})) {
				if a.Blk == l.Blk {
					return true
				}
			}
			return false
		})
	}
	// ---- R4 state carried across steps: a cache is keyed by everything its value is computed from ----
	// resultMetric caches the output label set of a binary operation in the EvalNodeHelper, which lives across all
	// steps of a range evaluation: a label-set parameter that influences the cached value must be part of the key.
	{
		rm := c.Fn(Q + "resultMetric")
		var lookup ast.Node
		ast.Inspect(rm.Body, func(n ast.Node) bool {
			if is, ok := n.(*ast.IfStmt); ok && is.Init != nil && strings.Contains(nodeText(is.Init), "enh.resultMetric[") && lookup == nil {
				lookup = is
			}
			return true
		})
		if lookup == nil {
			c.Fail("R4", rm.Where(), "the cache lookup of resultMetric exists", p.Pos(rm.Body.Pos()), "not found")
		} else {
			before, after := map[string]bool{}, map[string]bool{}
			ast.Inspect(rm.Body, func(n ast.Node) bool {
				id, ok := n.(*ast.Ident)
				if !ok || (id.Name != "lhs" && id.Name != "rhs") {
					return true
				}
				if id.Pos() < lookup.Pos() {
					before[id.Name] = true
				} else if id.Pos() > lookup.End() {
					after[id.Name] = true
				}
				return true
			})
			var missing []string
			for k := range after {
				if !before[k] {
					missing = append(missing, k)
				}
			}
			c.Check("R4", rm.Where(), "every label-set parameter the cached result metric is built from is written into the cache key", len(missing) == 0 && len(after) == 2, p.Pos(lookup.Pos()), "used for the value but not for the key: "+strings.Join(missing, ", "))
			// the value stored is the one just built, under the key just looked up
			rm.Only("R4", p.StoreElem(Q+"EvalNodeHelper.resultMetric"), "stores the label set just built under the key just looked up", func(l eng.Loc) bool {
				return nodeText(l.Node) == "enh.resultMetric[str] = ret"
			})
		}
	}
}
