package main

import (
	"fmt"
	"go/ast"
	"go/constant"
	"go/types"
	"sort"
	"strings"

	"promverif/eng"
)

func init() {
	register(&Property{
		ID:        "C33",
		Title:     "Query evaluation never fails internally",
		Technique: "table agreement (map-literal keys and switch case lists over go/types constants): parser function table vs engine implementation table, safe-function sets, aggregator and binary-operator dispatch; entry-point rule for the evaluator's panic recovery; who-may-call rule for the shared point-slice pools; reset-completeness rule for iterators reused across series; index-guard rules over package promql (x[v-1], last element by variable); signature-table rule: constant argument accesses of every function implementation against the arity and argument types parser.Functions guarantees",
		DesignRef: "DESIGN.md §5 C33",
		Level: "Decides that every function the parser accepts has an implementation and vice versa, that the special function sets only name existing functions, that every aggregator item type is dispatched by one of the aggregation evaluators and that the scalar and vector binary-operator evaluators implement the same operator set, " +
			"that evaluator.eval is only entered through Eval (which registers the panic-to-error recovery first), that slices go back to the shared pools only through the three helpers that truncate them, and that the series iterator the evaluator reuses across series re-initialises every one of its fields, that every index x[v-1] and every last-element access a[len(a)-1] by variable in package promql is protected by a test that makes it in range, and that no function implementation reads an argument, a sample of an argument vector, the range-vector series or a node type that the parser's signature table does not guarantee for that function.",
		Note:           "Trusted: go/packages, go/types, go/cfg; rule tables in checker/c33.go.",
		Covers:         "parser.Functions, promql.FunctionCalls, AtModifierUnsafeFunctions/AnchoredSafeFunctions/SmoothedSafeFunctions, evaluator.aggregation/aggregationK/aggregationCountValues dispatch, scalarBinop/vectorElemBinop, evaluator.Eval/recover, fPointPool/hPointPool/matrixSelectorHPool, storageSeriesIterator.reset, index expressions of package promql, the bodies of the functions registered in FunctionCalls.",
		NotCover:       "run-time faults other than the index shapes named above (nil dereference, variable indexes, helper functions that receive the argument slices), numerical results, independence of concurrent queries beyond pool discipline.",
		Run:            runC33,
		MinObligations: 120,
	})
}

func runC33(c *eng.Ctx) {
	p := c.P
	// ---- R1 function tables ----
	pf, _ := p.MapLitKeys("promql/parser:Functions")
	fc, pos := p.MapLitKeys("promql:FunctionCalls")
	d1, d2 := eng.SetDiff(pf, fc), eng.SetDiff(fc, pf)
	c.Check("R1", "promql:FunctionCalls", "keys(parser.Functions) = keys(promql.FunctionCalls)", len(d1) == 0 && len(d2) == 0 && len(pf) >= 60, pos,
		fmt.Sprintf("%d parser functions; accepted by the parser but not implemented: %v; implemented but unknown to the parser: %v", len(pf), d1, d2))
	for _, set := range []string{"AtModifierUnsafeFunctions", "AnchoredSafeFunctions", "SmoothedSafeFunctions"} {
		ks, pos := p.MapLitKeys("promql:" + set)
		d := eng.SetDiff(ks, pf)
		c.Check("R1", "promql:"+set, set+" ⊆ keys(parser.Functions)", len(d) == 0 && len(ks) > 0, pos, fmt.Sprintf("%d entries; unknown: %v", len(ks), d))
	}
	// aggregators: every aggregator item type is a case constant in one of the aggregation evaluators
	scope := p.Pkg("promql/parser").Types.Scope()
	val := func(name string) int64 {
		k, _ := scope.Lookup(name).(*types.Const)
		if k == nil {
			return -1
		}
		v, _ := constant.Int64Val(k.Val())
		return v
	}
	lo, hi := val("aggregatorsStart"), val("aggregatorsEnd")
	var aggs []string
	for _, n := range scope.Names() {
		if k, ok := scope.Lookup(n).(*types.Const); ok && k.Val().Kind() == constant.Int {
			if v, _ := constant.Int64Val(k.Val()); v > lo && v < hi {
				aggs = append(aggs, n)
			}
		}
	}
	caseConsts := func(fns ...string) map[string]bool {
		m := map[string]bool{}
		for _, fn := range fns {
			f := c.Fn(fn)
			ast.Inspect(f.Body, func(x ast.Node) bool {
				if cc, ok := x.(*ast.CaseClause); ok {
					for _, e := range cc.List {
						if se, ok := e.(*ast.SelectorExpr); ok && eng.ExprString(se.X) == "parser" {
							m[se.Sel.Name] = true
						}
					}
				}
				if be, ok := x.(*ast.BinaryExpr); ok && be.Op.String() == "==" {
					if se, ok := be.Y.(*ast.SelectorExpr); ok && eng.ExprString(se.X) == "parser" && strings.HasSuffix(eng.ExprString(be.X), ".Op") {
						m[se.Sel.Name] = true
					}
				}
				return true
			})
		}
		return m
	}
	handled := caseConsts("promql:evaluator.aggregation", "promql:evaluator.aggregationK", "promql:evaluator.aggregationCountValues", "promql:evaluator.eval", "promql:evaluator.rangeEvalAgg")
	var missing []string
	for _, a := range aggs {
		if !handled[a] {
			missing = append(missing, a)
		}
	}
	c.Check("R1", "promql:evaluator.aggregation*", "every aggregator item type is dispatched in the aggregation evaluators", len(missing) == 0 && len(aggs) >= 12, "", fmt.Sprintf("aggregators %v; without a case: %v", aggs, missing))
	// binary operators: scalar and vector (float) evaluators implement the same set
	sb := caseConsts("promql:scalarBinop")
	vf := c.Fn("promql:vectorElemBinop")
	vb := map[string]bool{}
	first := true
	ast.Inspect(vf.Body, func(x ast.Node) bool {
		sw, ok := x.(*ast.SwitchStmt)
		if !ok || sw.Tag == nil || eng.ExprString(sw.Tag) != "op" || !first {
			return true
		}
		first = false // the float×float arm comes first
		for _, cl := range sw.Body.List {
			for _, e := range cl.(*ast.CaseClause).List {
				if se, ok := e.(*ast.SelectorExpr); ok {
					vb[se.Sel.Name] = true
				}
			}
		}
		return true
	})
	a, b := eng.SortedKeys(sb), eng.SortedKeys(vb)
	c.Check("R1", "promql:scalarBinop/vectorElemBinop", "every operator the scalar evaluator implements is handled by the vector (float×float) evaluator", len(eng.SetDiff(a, b)) == 0 && len(a) >= 13, "", fmt.Sprintf("scalar %v; vector %v; missing in vector: %v", a, b, eng.SetDiff(a, b)))
	c.Fn("promql:scalarBinop").Has("R1", eng.CallNamed("panic"), 1) // the engine's own invariant violation is raised, caught by recover below
	// ---- R2 recovery ----
	ev := c.Fn("promql:evaluator.Eval")
	ev.Dom("R2", eng.Deferred(p.Call("promql:evaluator.recover")), p.Call("promql:evaluator.eval"))
	ev.Only("R2", eng.Deferred(p.Call("promql:evaluator.recover")), "recovers into the named error result", func(l eng.Loc) bool { return strings.Contains(nodeText(l.Node), "&err") })
	{
		// eval is entered from outside the evaluator's own methods only through Eval
		var outside []string
		for _, s := range p.Index().CallersOf(p.Func("promql:evaluator.eval")) {
			if !strings.HasPrefix(s.InName, "promql:evaluator.") && s.InName != "promql:newFParams" {
				outside = append(outside, s.InName)
			}
		}
		sort.Strings(outside)
		c.Check("R2", "promql:evaluator.eval", "is called only by methods of the evaluator (entered through Eval)", len(outside) == 0, "", fmt.Sprint(outside))
		for _, s := range p.Index().CallersOf(p.Func("promql:newFParams")) {
			if !strings.HasPrefix(s.InName, "promql:evaluator.") {
				outside = append(outside, "newFParams←"+s.InName)
			}
		}
		c.Check("R2", "promql:newFParams", "the helper that evaluates aggregation parameters is only called by methods of the evaluator", len(outside) == 0, "", fmt.Sprint(outside))
		rec := c.Fn("promql:evaluator.recover")
		rec.Has("R2", eng.CallNamed("recover"), 1)
	}
	// ---- R3 pools ----
	for _, pl := range []struct{ pool, put string }{{"fPointPool", "putFPointSlice"}, {"hPointPool", "putHPointSlice"}, {"matrixSelectorHPool", "putMatrixSelectorHPointSlice"}} {
		put := eng.Node(pl.pool+".Put(…)", func(g *eng.Graph, n ast.Node) bool {
			call, ok := n.(*ast.CallExpr)
			return ok && eng.ExprString(call.Fun) == pl.pool+".Put"
		})
		c.OnlyIn("R3", put, 1, "promql:"+pl.put)
		f := c.Fn("promql:" + pl.put)
		f.Only("R3", put, "hands back the truncated slice", func(l eng.Loc) bool { a := eng.CallArgsText(l); return len(a) == 1 && a[0] == "p[:0]" })
	}
	// ---- R4 iterators reused across series start clean ----
	c.AssignsAllFields("R4", "promql:storageSeriesIterator.reset", "promql:storageSeriesIterator", nil)
	// ---- R5 an index one below a variable is guarded: v ≥ 1 is established by an enclosing test or by the loop that runs v ----
	// (promql package only: a panic here surfaces as an internal "unexpected error" of a valid query)
	{
		sites := p.FindAll(eng.Node("index v-1", func(g *eng.Graph, n ast.Node) bool {
			if g.Pkg.PkgPath != "github.com/prometheus/prometheus/promql" {
				return false
			}
			ix, ok := n.(*ast.IndexExpr)
			if !ok {
				return false
			}
			be, ok := ix.Index.(*ast.BinaryExpr)
			if !ok || be.Op.String() != "-" || nodeText(be.Y) != "1" {
				return false
			}
			_, isIdent := be.X.(*ast.Ident)
			return isIdent
		}))
		declared := map[string]string{
			"promql:vectorByValueHeap.Pop|n":        "container/heap calls Pop only on a non-empty heap; n = len(old)",
			"promql:vectorByReverseValueHeap.Pop|n": "container/heap calls Pop only on a non-empty heap; n = len(old)",
		}
		bySite := map[string]bool{}
		for _, o := range sites {
			v := nodeText(o.Node.(*ast.IndexExpr).Index.(*ast.BinaryExpr).X)
			key := o.In + "|" + v
			if bySite[key+"|"+p.Pos(o.Node.Pos())] {
				continue
			}
			bySite[key+"|"+p.Pos(o.Node.Pos())] = true
			what := "index " + v + "-1 in " + eng.Short(o.In) + " is reached only with " + v + " ≥ 1"
			if why, ok := declared[key]; ok {
				c.Pass("R5", o.In, what, "declared: "+why)
				continue
			}
			c.Check("R5", o.In, what, indexGuarded(o.G, o.Node, v), p.Pos(o.Node.Pos()), "no enclosing test or loop establishes "+v+" > 0")
		}
		c.Check("R5", "promql", "index-below-variable sites found (≥ 10 confirmed by reading)", len(bySite) >= 10, "", fmt.Sprint(len(bySite)))
	}
	// ---- R6 an index by `len(a) − 1` held in a variable needs a non-empty a ----
	{
		n := 0
		for _, fs := range p.AllFuncs() {
			if fs.Pkg.PkgPath != "github.com/prometheus/prometheus/promql" || strings.HasSuffix(p.Pos(fs.Decl.Pos()), "_test.go") {
				continue
			}
			g := c.FnOfSrc(fs)
			// variables defined exactly once as len(a) - 1
			lastOf := map[string]string{}
			multi := map[string]bool{}
			ast.Inspect(g.Body, func(x ast.Node) bool {
				as, ok := x.(*ast.AssignStmt)
				if !ok || len(as.Lhs) != 1 || len(as.Rhs) != 1 {
					return true
				}
				id, ok := as.Lhs[0].(*ast.Ident)
				if !ok {
					return true
				}
				be, ok := as.Rhs[0].(*ast.BinaryExpr)
				if ok && be.Op.String() == "-" && nodeText(be.Y) == "1" {
					if call, ok := be.X.(*ast.CallExpr); ok && nodeText(call.Fun) == "len" && len(call.Args) == 1 && as.Tok.String() == ":=" {
						lastOf[id.Name] = nodeText(call.Args[0])
						return true
					}
				}
				if _, had := lastOf[id.Name]; had {
					multi[id.Name] = true
				}
				return true
			})
			ast.Inspect(g.Body, func(x ast.Node) bool {
				ix, ok := x.(*ast.IndexExpr)
				if !ok {
					return true
				}
				id, ok := ix.Index.(*ast.Ident)
				if !ok {
					return true
				}
				arr, isLast := lastOf[id.Name]
				if !isLast || nodeText(ix.X) != arr {
					return true
				}
				n++
				what := "index " + arr + "[" + id.Name + "] with " + id.Name + " := len(" + arr + ") - 1 in " + eng.Short(g.Name) + " is reached only with a non-empty " + arr
				c.Check("R6", g.Name, what, lastIndexGuarded(g.Graph, ix, arr, id.Name), p.Pos(ix.Pos()), "no test of len("+arr+") protects it")
				return true
			})
		}
		c.Check("R6", "promql", "last-element-by-variable sites found (≥ 3)", n >= 3, "", fmt.Sprint(n))
	}
	runC33Args(c)
}

// lastIndexSites: index expressions a[v] in package promql where v is a local variable whose definition is
// len(a) − 1; each must be protected by an emptiness test of a: an enclosing condition implying len(a) > 0, or an
// earlier sibling `if len(a) == 0 / < k { return | continue | break }` of one of its enclosing statements.
func lastIndexGuarded(g *eng.Graph, site *ast.IndexExpr, arr, idx string) bool {
	ok := false
	var stack []ast.Node
	done := false
	emptyTest := func(e ast.Expr) (positive, negative bool) {
		// positive: e implies len(arr) > 0 ; negative: e is "arr is empty / too short"
		var walk func(e ast.Expr)
		walk = func(e ast.Expr) {
			e = ast.Unparen(e)
			if be, isB := e.(*ast.BinaryExpr); isB && (be.Op.String() == "&&" || be.Op.String() == "||") {
				walk(be.X)
				walk(be.Y)
				return
			}
			l, isL := eng.LinearCmp(g.Info, e)
			if !isL {
				return
			}
			t := "len(" + arr + ")"
			if l == "-1*"+t+" < 0" || strings.HasPrefix(l, "-1*"+t+" +") && strings.HasSuffix(l, " < 0") {
				positive = true // len > k, k ≥ 0
			}
			if l == "-1*"+idx+" -1 < 0" || l == "-1*"+idx+" < 0" {
				positive = true // the index variable itself is tested: idx ≥ 0 (a downward loop from len−1)
			}
			if l == "+1*"+t+" == 0" || strings.HasPrefix(l, "+1*"+t+" -") && strings.HasSuffix(l, " < 0") {
				negative = true // len == 0 or len < k
			}
		}
		walk(e)
		return
	}
	exits := func(b *ast.BlockStmt) bool {
		if len(b.List) == 0 {
			return false
		}
		switch s := b.List[len(b.List)-1].(type) {
		case *ast.ReturnStmt:
			return true
		case *ast.BranchStmt:
			return s.Tok.String() == "continue" || s.Tok.String() == "break"
		case *ast.ExprStmt:
			return strings.HasPrefix(nodeText(s), "panic(") || strings.Contains(nodeText(s), ".errorf(") || strings.Contains(nodeText(s), ".error(")
		}
		return false
	}
	ast.Inspect(g.Body, func(x ast.Node) bool {
		if done {
			return false
		}
		if x == nil {
			stack = stack[:len(stack)-1]
			return true
		}
		stack = append(stack, x)
		if x != ast.Node(site) {
			return true
		}
		done = true
		for i := len(stack) - 2; i >= 0; i-- {
			switch s := stack[i].(type) {
			case *ast.IfStmt:
				if stack[i+1] == ast.Node(s.Body) {
					if pos, _ := emptyTest(s.Cond); pos {
						ok = true
					}
				}
				if s.Else != nil && stack[i+1] == ast.Node(s.Else) {
					if _, neg := emptyTest(s.Cond); neg {
						ok = true
					}
				}
			case *ast.ForStmt:
				if s.Cond != nil {
					if pos, _ := emptyTest(s.Cond); pos {
						ok = true
					}
				}
			case *ast.BinaryExpr:
				if s.Op.String() == "&&" && stack[i+1] == ast.Node(s.Y) {
					if pos, _ := emptyTest(s.X); pos {
						ok = true
					}
				}
			case *ast.BlockStmt:
				for _, st := range s.List {
					if st == stack[i+1] {
						break
					}
					if is, isIf := st.(*ast.IfStmt); isIf {
						if _, neg := emptyTest(is.Cond); neg && exits(is.Body) {
							ok = true
						}
					}
				}
			case *ast.CaseClause:
				for _, st := range s.Body {
					if st == stack[i+1] {
						break
					}
					if is, isIf := st.(*ast.IfStmt); isIf {
						if _, neg := emptyTest(is.Cond); neg && exits(is.Body) {
							ok = true
						}
					}
				}
				if len(s.List) == 1 {
					if pos, _ := emptyTest(s.List[0]); pos {
						ok = true
					}
				}
			}
		}
		return false
	})
	return ok
}

// indexGuarded: some enclosing if (true arm) or for condition has a conjunct whose linear normal form is
// v > 0 / v ≥ 1 (or a stronger lower bound), or v is the variable of an enclosing for loop initialised
// to a constant ≥ 1 and only incremented.
func indexGuarded(g *eng.Graph, n ast.Node, v string) bool {
	ok := false
	var stack []ast.Node
	done := false
	ast.Inspect(g.Body, func(x ast.Node) bool {
		if done {
			return false
		}
		if x == nil {
			stack = stack[:len(stack)-1]
			return true
		}
		stack = append(stack, x)
		if x != n {
			return true
		}
		done = true
		lower := func(e ast.Expr) bool {
			var conj func(e ast.Expr) bool
			conj = func(e ast.Expr) bool {
				e = ast.Unparen(e)
				if be, isB := e.(*ast.BinaryExpr); isB && be.Op.String() == "&&" {
					return conj(be.X) || conj(be.Y)
				}
				l, isL := eng.LinearCmp(g.Info, e)
				if !isL {
					return false
				}
				// -1*v +k < 0 with k ≥ 0  ⇔  v > k  (k = 0: v > 0)
				return l == "-1*"+v+" < 0" || strings.HasPrefix(l, "-1*"+v+" +") && strings.HasSuffix(l, " < 0") && !strings.Contains(strings.TrimSuffix(strings.TrimPrefix(l, "-1*"+v+" +"), " < 0"), "*")
			}
			return conj(e)
		}
		for i := len(stack) - 2; i >= 0; i-- {
			switch s := stack[i].(type) {
			case *ast.IfStmt:
				if stack[i+1] == ast.Node(s.Body) && lower(s.Cond) {
					ok = true
				}
				// `a && b[v-1]` inside the condition itself: the left conjuncts guard the right ones
				if stack[i+1] == ast.Node(s.Cond) && lower(s.Cond) {
					ok = true
				}
			case *ast.ForStmt:
				if s.Cond != nil && lower(s.Cond) {
					ok = true
				}
				if as, isA := s.Init.(*ast.AssignStmt); isA && len(as.Lhs) == 1 && nodeText(as.Lhs[0]) == v {
					if t := nodeText(as.Rhs[0]); t != "0" && len(t) > 0 && t[0] >= '1' && t[0] <= '9' {
						if inc, isI := s.Post.(*ast.IncDecStmt); isI && nodeText(inc.X) == v && inc.Tok.String() == "++" {
							ok = true
						}
					}
				}
			case *ast.BinaryExpr:
				if s.Op.String() == "&&" && stack[i+1] == ast.Node(s.Y) && lower(s.X) {
					ok = true
				}
			case *ast.CaseClause:
				// an arm of a tagless switch: `case v > 0 && …:`
				if len(s.List) == 1 && i > 0 {
					inBody := false
					for _, st := range s.Body {
						if stack[i+1] == ast.Node(st) {
							inBody = true
						}
					}
					if sw, isSw := stack[i-2].(*ast.SwitchStmt); isSw && sw.Tag == nil && inBody && lower(s.List[0]) {
						ok = true
					}
				}
			}
		}
		return false
	})
	return ok
}
