package main

import (
	"fmt"
	"go/ast"
	"go/constant"
	"go/types"
	"sort"
	"strings"

	"promverif/eng"
)

func init() {
	register(&Property{
		ID:        "C33",
		Title:     "Query evaluation never fails internally",
		Technique: "table agreement (map-literal keys and switch case lists over go/types constants): parser function table vs engine implementation table, safe-function sets, aggregator and binary-operator dispatch; entry-point rule for the evaluator's panic recovery; who-may-call rule for the shared point-slice pools; reset-completeness rule for iterators reused across series",
		DesignRef: "DESIGN.md §5 C33",
		Level: "Decides that every function the parser accepts has an implementation and vice versa, that the special function sets only name existing functions, that every aggregator item type is dispatched by one of the aggregation evaluators and that the scalar and vector binary-operator evaluators implement the same operator set, " +
			"that evaluator.eval is only entered through Eval (which registers the panic-to-error recovery first), that slices go back to the shared pools only through the three helpers that truncate them, and that the series iterator the evaluator reuses across series re-initialises every one of its fields.",
		Note:           "Trusted: go/packages, go/types, go/cfg; rule tables in checker/c33.go.",
		Covers:         "parser.Functions, promql.FunctionCalls, AtModifierUnsafeFunctions/AnchoredSafeFunctions/SmoothedSafeFunctions, evaluator.aggregation/aggregationK/aggregationCountValues dispatch, scalarBinop/vectorElemBinop, evaluator.Eval/recover, fPointPool/hPointPool/matrixSelectorHPool, storageSeriesIterator.reset.",
		NotCover:       "absence of run-time faults inside the function implementations, numerical results, independence of concurrent queries beyond pool discipline.",
		Run:            runC33,
		MinObligations: 14,
	})
}

func runC33(c *eng.Ctx) {
	p := c.P
	// ---- R1 function tables ----
	pf, _ := p.MapLitKeys("promql/parser:Functions")
	fc, pos := p.MapLitKeys("promql:FunctionCalls")
	d1, d2 := eng.SetDiff(pf, fc), eng.SetDiff(fc, pf)
	c.Check("R1", "promql:FunctionCalls", "keys(parser.Functions) = keys(promql.FunctionCalls)", len(d1) == 0 && len(d2) == 0 && len(pf) >= 60, pos,
		fmt.Sprintf("%d parser functions; accepted by the parser but not implemented: %v; implemented but unknown to the parser: %v", len(pf), d1, d2))
	for _, set := range []string{"AtModifierUnsafeFunctions", "AnchoredSafeFunctions", "SmoothedSafeFunctions"} {
		ks, pos := p.MapLitKeys("promql:" + set)
		d := eng.SetDiff(ks, pf)
		c.Check("R1", "promql:"+set, set+" ⊆ keys(parser.Functions)", len(d) == 0 && len(ks) > 0, pos, fmt.Sprintf("%d entries; unknown: %v", len(ks), d))
	}
	// aggregators: every aggregator item type is a case constant in one of the aggregation evaluators
	scope := p.Pkg("promql/parser").Types.Scope()
	val := func(name string) int64 {
		k, _ := scope.Lookup(name).(*types.Const)
		if k == nil {
			return -1
		}
		v, _ := constant.Int64Val(k.Val())
		return v
	}
	lo, hi := val("aggregatorsStart"), val("aggregatorsEnd")
	var aggs []string
	for _, n := range scope.Names() {
		if k, ok := scope.Lookup(n).(*types.Const); ok && k.Val().Kind() == constant.Int {
			if v, _ := constant.Int64Val(k.Val()); v > lo && v < hi {
				aggs = append(aggs, n)
			}
		}
	}
	caseConsts := func(fns ...string) map[string]bool {
		m := map[string]bool{}
		for _, fn := range fns {
			f := c.Fn(fn)
			ast.Inspect(f.Body, func(x ast.Node) bool {
				if cc, ok := x.(*ast.CaseClause); ok {
					for _, e := range cc.List {
						if se, ok := e.(*ast.SelectorExpr); ok && eng.ExprString(se.X) == "parser" {
							m[se.Sel.Name] = true
						}
					}
				}
				if be, ok := x.(*ast.BinaryExpr); ok && be.Op.String() == "==" {
					if se, ok := be.Y.(*ast.SelectorExpr); ok && eng.ExprString(se.X) == "parser" && strings.HasSuffix(eng.ExprString(be.X), ".Op") {
						m[se.Sel.Name] = true
					}
				}
				return true
			})
		}
		return m
	}
	handled := caseConsts("promql:evaluator.aggregation", "promql:evaluator.aggregationK", "promql:evaluator.aggregationCountValues", "promql:evaluator.eval", "promql:evaluator.rangeEvalAgg")
	var missing []string
	for _, a := range aggs {
		if !handled[a] {
			missing = append(missing, a)
		}
	}
	c.Check("R1", "promql:evaluator.aggregation*", "every aggregator item type is dispatched in the aggregation evaluators", len(missing) == 0 && len(aggs) >= 12, "", fmt.Sprintf("aggregators %v; without a case: %v", aggs, missing))
	// binary operators: scalar and vector (float) evaluators implement the same set
	sb := caseConsts("promql:scalarBinop")
	vf := c.Fn("promql:vectorElemBinop")
	vb := map[string]bool{}
	first := true
	ast.Inspect(vf.Body, func(x ast.Node) bool {
		sw, ok := x.(*ast.SwitchStmt)
		if !ok || sw.Tag == nil || eng.ExprString(sw.Tag) != "op" || !first {
			return true
		}
		first = false // the float×float arm comes first
		for _, cl := range sw.Body.List {
			for _, e := range cl.(*ast.CaseClause).List {
				if se, ok := e.(*ast.SelectorExpr); ok {
					vb[se.Sel.Name] = true
				}
			}
		}
		return true
	})
	a, b := eng.SortedKeys(sb), eng.SortedKeys(vb)
	c.Check("R1", "promql:scalarBinop/vectorElemBinop", "every operator the scalar evaluator implements is handled by the vector (float×float) evaluator", len(eng.SetDiff(a, b)) == 0 && len(a) >= 13, "", fmt.Sprintf("scalar %v; vector %v; missing in vector: %v", a, b, eng.SetDiff(a, b)))
	c.Fn("promql:scalarBinop").Has("R1", eng.CallNamed("panic"), 1) // the engine's own invariant violation is raised, caught by recover below
	// ---- R2 recovery ----
	ev := c.Fn("promql:evaluator.Eval")
	ev.Dom("R2", eng.Deferred(p.Call("promql:evaluator.recover")), p.Call("promql:evaluator.eval"))
	ev.Only("R2", eng.Deferred(p.Call("promql:evaluator.recover")), "recovers into the named error result", func(l eng.Loc) bool { return strings.Contains(nodeText(l.Node), "&err") })
	{
		// eval is entered from outside the evaluator's own methods only through Eval
		var outside []string
		for _, s := range p.Index().CallersOf(p.Func("promql:evaluator.eval")) {
			if !strings.HasPrefix(s.InName, "promql:evaluator.") && s.InName != "promql:newFParams" {
				outside = append(outside, s.InName)
			}
		}
		sort.Strings(outside)
		c.Check("R2", "promql:evaluator.eval", "is called only by methods of the evaluator (entered through Eval)", len(outside) == 0, "", fmt.Sprint(outside))
		for _, s := range p.Index().CallersOf(p.Func("promql:newFParams")) {
			if !strings.HasPrefix(s.InName, "promql:evaluator.") {
				outside = append(outside, "newFParams←"+s.InName)
			}
		}
		c.Check("R2", "promql:newFParams", "the helper that evaluates aggregation parameters is only called by methods of the evaluator", len(outside) == 0, "", fmt.Sprint(outside))
		rec := c.Fn("promql:evaluator.recover")
		rec.Has("R2", eng.CallNamed("recover"), 1)
	}
	// ---- R3 pools ----
	for _, pl := range []struct{ pool, put string }{{"fPointPool", "putFPointSlice"}, {"hPointPool", "putHPointSlice"}, {"matrixSelectorHPool", "putMatrixSelectorHPointSlice"}} {
		put := eng.Node(pl.pool+".Put(…)", func(g *eng.Graph, n ast.Node) bool {
			call, ok := n.(*ast.CallExpr)
			return ok && eng.ExprString(call.Fun) == pl.pool+".Put"
		})
		c.OnlyIn("R3", put, 1, "promql:"+pl.put)
		f := c.Fn("promql:" + pl.put)
		f.Only("R3", put, "hands back the truncated slice", func(l eng.Loc) bool { a := eng.CallArgsText(l); return len(a) == 1 && a[0] == "p[:0]" })
	}
	// ---- R4 iterators reused across series start clean ----
	c.AssignsAllFields("R4", "promql:storageSeriesIterator.reset", "promql:storageSeriesIterator", nil)
}
