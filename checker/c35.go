package main

import (
	"fmt"
	"go/ast"
	"go/constant"
	"go/types"
	"sort"
	"strings"

	"promverif/eng"
)

func init() {
	register(&Property{
		ID:        "C35",
		Title:     "Exposition formats are parsed faithfully and consistently",
		Technique: "cross-table agreement over go/types constants (metric-type names of the three parsers against common/model's constants, each literal compared with the constant's string value); sibling equality of the two text parsers' label assembly; call-shape rule for every source of a `le`/`quantile` label value (one float formatter); field-transfer and polarity rules for the protobuf native-histogram conversion; out-parameter discipline of the Exemplar fillers and their callers",
		DesignRef: "DESIGN.md §5 C35",
		Level: "Decides only where the three parsers must agree by construction: a TYPE word maps to the metric-type constant whose value is that word (text parsers; `untyped` ↦ unknown declared) and every protobuf metric type maps to the constant of the same name; both text parsers assemble labels the same way (metric name, metadata labels, normalised `le`/`quantile`, sort) and every `le`/`quantile` value of all three parsers passes through labels.FormatOpenMetricsFloat (or is the literal +Inf); " +
			"the protobuf native-histogram conversion reads every field of the wire histogram it must (count, sum, zero threshold/count, schema, spans, deltas or counts), fills positive from positive and negative from negative, marks gauge histograms, compacts, and reports a timestamp iff non-zero; a sample's timestamp accessor returns nil exactly when the parser saw none; " +
			"Exemplar() of the text and protobuf parsers always sets value and labels and sets the timestamp only when present, and every module caller hands it a zeroed exemplar.",
		Note:           "Trusted: go/packages, go/types, go/cfg; tables in checker/c35.go.",
		Covers:         "model/textparse: PromParser.{Next,Labels,Series}, OpenMetricsParser.{Next,Labels,Series,Exemplar}, ProtobufParser.{Type,Histogram,getMagicLabel,Exemplar}, normalizeFloatsInLabelValues; callers of Parser.Exemplar in scrape and textparse.",
		NotCover:       "the generated lexers and everything value-level: that the tokens, numbers, escapes and UTF-8 names read are the ones written by an encoder; crash-freedom on arbitrary bytes; classic-histogram series expansion of the protobuf parser.",
		Run:            runC35,
		MinObligations: 70,
	})
}

func runC35(c *eng.Ctx) {
	defer runC35Pointers(c)
	p := c.P
	T := "model/textparse:"
	// ---- R1 metric type tables ----
	constVal := func(e ast.Expr, info *types.Info) (name, val string, ok bool) {
		var id *ast.Ident
		switch x := ast.Unparen(e).(type) {
		case *ast.SelectorExpr:
			id = x.Sel
		case *ast.Ident:
			id = x
		}
		if id == nil {
			return "", "", false
		}
		k, isC := info.Uses[id].(*types.Const)
		if !isC || k.Val().Kind() != constant.String {
			return "", "", false
		}
		return k.Name(), constant.StringVal(k.Val()), true
	}
	textTable := func(fnRef string, min int, declared map[string]string) {
		f := c.Fn(fnRef)
		rows := 0
		var bad []string
		ast.Inspect(f.Body, func(n ast.Node) bool {
			sw, ok := n.(*ast.SwitchStmt)
			if !ok || sw.Tag == nil || !strings.Contains(nodeText(sw.Tag), "yoloString(p.text)") && !strings.Contains(nodeText(sw.Init), "yoloString(p.text)") {
				return true
			}
			for _, cl := range sw.Body.List {
				cc := cl.(*ast.CaseClause)
				if cc.List == nil {
					if !strings.Contains(nodeText(cc), "invalid metric type") {
						bad = append(bad, "default arm does not reject the word")
					}
					continue
				}
				for _, e := range cc.List {
					lit, ok := e.(*ast.BasicLit)
					if !ok {
						bad = append(bad, "non-literal case "+nodeText(e))
						continue
					}
					word := strings.Trim(lit.Value, `"`)
					if len(cc.Body) != 1 {
						bad = append(bad, word+": arm does more than assign the type")
						continue
					}
					as, ok := cc.Body[0].(*ast.AssignStmt)
					if !ok || nodeText(as.Lhs[0]) != "p.mtype" {
						bad = append(bad, word+": arm does not assign p.mtype")
						continue
					}
					name, val, ok := constVal(as.Rhs[0], f.Info)
					if !ok {
						bad = append(bad, word+": not a string constant")
						continue
					}
					rows++
					if want, dec := declared[word]; dec {
						if name != want {
							bad = append(bad, fmt.Sprintf("%q ↦ %s, declared exception says %s", word, name, want))
						}
					} else if val != word {
						bad = append(bad, fmt.Sprintf("%q ↦ %s whose value is %q", word, name, val))
					}
				}
			}
			return false
		})
		sort.Strings(bad)
		c.Check("R1", f.Where(), "every TYPE word maps to the metric-type constant whose value is that word", len(bad) == 0 && rows >= min, p.Pos(f.Body.Pos()), fmt.Sprintf("%d rows; %s", rows, strings.Join(bad, "; ")))
	}
	textTable(T+"PromParser.Next", 5, map[string]string{"untyped": "MetricTypeUnknown"})
	textTable(T+"OpenMetricsParser.Next", 8, nil)
	{
		f := c.Fn(T + "ProtobufParser.Type")
		rows := 0
		var bad []string
		ast.Inspect(f.Body, func(n ast.Node) bool {
			cc, ok := n.(*ast.CaseClause)
			if !ok || cc.List == nil {
				return true
			}
			for _, e := range cc.List {
				src := strings.ToLower(strings.ReplaceAll(strings.TrimPrefix(nodeText(e), "dto.MetricType_"), "_", ""))
				if len(cc.Body) != 1 {
					bad = append(bad, src+": arm does more than return")
					continue
				}
				rs, ok := cc.Body[0].(*ast.ReturnStmt)
				if !ok || len(rs.Results) != 2 {
					bad = append(bad, src+": no return")
					continue
				}
				_, val, ok := constVal(rs.Results[1], f.Info)
				rows++
				if !ok || val != src {
					bad = append(bad, fmt.Sprintf("%s ↦ constant with value %q", src, val))
				}
			}
			return true
		})
		c.Check("R1", f.Where(), "every protobuf metric type maps to the metric-type constant of the same name", len(bad) == 0 && rows >= 5, p.Pos(f.Body.Pos()), fmt.Sprintf("%d rows; %s", rows, strings.Join(bad, "; ")))
		f.Only("R1", eng.Return("fall-through return", func(g *eng.Graph, rs *ast.ReturnStmt) bool {
			return len(f.CondsOf(rs)) == 0 && !strings.Contains(nodeText(rs), "model.MetricType") || nodeText(rs) == "return n, model.MetricTypeUnknown"
		}), "reports unknown for every other type", func(l eng.Loc) bool { return nodeText(l.Node) == "return n, model.MetricTypeUnknown" })
	}
	// ---- R2 label assembly ----
	c.SiblingsEqual("R2", T+"PromParser.Labels", T+"OpenMetricsParser.Labels", nil, []eng.SiblingDiff{
		{A: "m := schema.Metadata{Name: metricName, Type: p.mtype}", B: "m := schema.Metadata{Name: metricName, Type: p.mtype, Unit: p.unit}", Why: "only OpenMetrics has UNIT metadata"},
	})
	for _, fn := range []string{"PromParser.Labels", "OpenMetricsParser.Labels"} {
		f := c.Fn(T + fn)
		f.Only("R2", p.Call(T+"normalizeFloatsInLabelValues"), "normalises every label value with the metric's type and the label's name", func(l eng.Loc) bool {
			a := eng.CallArgsText(l)
			return len(a) == 3 && a[0] == "p.mtype" && a[1] == "label" && a[2] == "unreplace(s[c:d])"
		})
		f.Dom("R2", eng.Node("p.builder.Sort()", func(g *eng.Graph, n ast.Node) bool {
			call, ok := n.(*ast.CallExpr)
			return ok && nodeText(call) == "p.builder.Sort()"
		}), eng.Node("*l = p.builder.Labels()", func(g *eng.Graph, n ast.Node) bool { return nodeText(n) == "*l = p.builder.Labels()" }))
	}
	nf := c.Fn(T + "normalizeFloatsInLabelValues")
	nf.Only("R2", eng.Return("return of a re-formatted value", func(g *eng.Graph, rs *ast.ReturnStmt) bool { return nodeText(rs) != "return v" }), "re-formats le of histograms and quantile of summaries with FormatOpenMetricsFloat, only when the value parses", func(l eng.Loc) bool {
		return nodeText(l.Node) == "return labels.FormatOpenMetricsFloat(f)" && nf.UnderCond(l, "err == nil") &&
			nf.UnderCond(l, "(t == model.MetricTypeSummary && l == model.QuantileLabel) || (t == model.MetricTypeHistogram && l == model.BucketLabel)")
	})
	nf.Has("R2", eng.Return("return v", func(g *eng.Graph, rs *ast.ReturnStmt) bool { return nodeText(rs) == "return v" }), 1)
	ml := c.Fn(T + "ProtobufParser.getMagicLabel")
	ml.Only("R2", eng.Return("return of a magic label", func(g *eng.Graph, rs *ast.ReturnStmt) bool {
		return len(rs.Results) == 3 && nodeText(rs.Results[0]) == "true"
	}), "is (quantile, formatted quantile), (le, formatted upper bound) or (le, +Inf)", func(l eng.Loc) bool {
		t := nodeText(l.Node)
		return t == "return true, model.QuantileLabel, labels.FormatOpenMetricsFloat(q.GetQuantile())" ||
			t == "return true, model.BucketLabel, labels.FormatOpenMetricsFloat(b.GetUpperBound())" ||
			(t == `return true, model.BucketLabel, "+Inf"` && ml.UnderCond(l, "p.fieldPos >= len(bb)"))
	})
	ml.Has("R2", eng.Return("return of a magic label", func(g *eng.Graph, rs *ast.ReturnStmt) bool {
		return len(rs.Results) == 3 && nodeText(rs.Results[0]) == "true"
	}), 3)
	// ---- R3 protobuf native histograms ----
	{
		f := c.Fn(T + "ProtobufParser.Histogram")
		c.PolarityAgree("R3", T+"ProtobufParser.Histogram", []string{"Positive", "Negative"}, 16)
		getters := map[string]bool{}
		ast.Inspect(f.Body, func(n ast.Node) bool {
			if call, ok := n.(*ast.CallExpr); ok {
				if se, ok := call.Fun.(*ast.SelectorExpr); ok && eng.ExprString(se.X) == "h" && strings.HasPrefix(se.Sel.Name, "Get") {
					getters[se.Sel.Name[3:]] = true
				}
			}
			return true
		})
		var missing []string
		for _, g := range []string{"SampleCount", "SampleCountFloat", "SampleSum", "ZeroThreshold", "ZeroCount", "ZeroCountFloat", "Schema", "PositiveSpan", "NegativeSpan", "PositiveDelta", "NegativeDelta", "PositiveCount", "NegativeCount"} {
			if !getters[g] {
				missing = append(missing, g)
			}
		}
		c.Check("R3", f.Where(), "the conversion reads count, sum, zero bucket, schema, spans and bucket deltas/counts of the wire histogram", len(missing) == 0, p.Pos(f.Body.Pos()), "not read: "+strings.Join(missing, ", "))
		for _, lit := range [][2]string{{"model/histogram:Histogram", "int"}, {"model/histogram:FloatHistogram", "float"}} {
			ls := f.LitTexts(lit[0])
			ok := len(ls) == 1
			if ok {
				m := ls[0]
				cnt, zc := "h.GetSampleCount()", "h.GetZeroCount()"
				if lit[1] == "float" {
					cnt, zc = "h.GetSampleCountFloat()", "h.GetZeroCountFloat()"
				}
				ok = m["Count"] == cnt && m["ZeroCount"] == zc && m["Sum"] == "h.GetSampleSum()" && m["ZeroThreshold"] == "h.GetZeroThreshold()" && m["Schema"] == "h.GetSchema()"
			}
			c.Check("R3", f.Where(), "the "+lit[1]+" histogram literal takes count, zero count, sum, zero threshold and schema from the getters of the same name", ok, p.Pos(f.Body.Pos()), "")
		}
		for _, v := range []string{"sh", "fh"} {
			v := v
			hint := eng.Node(v+".CounterResetHint = histogram.GaugeType", func(g *eng.Graph, n ast.Node) bool {
				return nodeText(n) == v+".CounterResetHint = histogram.GaugeType"
			})
			f.Has("R3", hint, 1)
			f.Only("R3", hint, "marks exactly gauge histograms", func(l eng.Loc) bool { return f.UnderCond(l, "p.dec.GetType() == dto.MetricType_GAUGE_HISTOGRAM") })
		}
		f.Only("R3", eng.Return("return of a converted histogram", func(g *eng.Graph, rs *ast.ReturnStmt) bool {
			t := nodeText(rs)
			return strings.HasSuffix(t, "&sh, nil") || strings.HasSuffix(t, "nil, &fh")
		}), "reports the timestamp iff it is non-zero", func(l eng.Loc) bool {
			rs := l.Node.(*ast.ReturnStmt)
			ts := nodeText(rs.Results[1])
			return (ts == "ts" && f.UnderCond(l, "*ts != 0")) || (ts == "nil" && !f.UnderCond(l, "*ts != 0"))
		})
	}
	// ---- R4 sample timestamps ----
	for _, fn := range []string{"PromParser.Series", "OpenMetricsParser.Series"} {
		f := c.Fn(T + fn)
		f.Only("R4", eng.Return("return", func(g *eng.Graph, rs *ast.ReturnStmt) bool { return true }), "returns the series text and value with the timestamp iff one was parsed", func(l eng.Loc) bool {
			rs := l.Node.(*ast.ReturnStmt)
			if len(rs.Results) != 3 || nodeText(rs.Results[0]) != "p.series" || nodeText(rs.Results[2]) != "p.val" {
				return false
			}
			ts := nodeText(rs.Results[1])
			if f.UnderCond(l, "p.hasTS") {
				return ts == "&p.ts" || ts == "&ts"
			}
			return ts == "nil"
		})
	}
	// ---- R5 exemplar out-parameter discipline ----
	for _, fn := range []string{"OpenMetricsParser.Exemplar", "ProtobufParser.Exemplar"} {
		f := c.Fn(T + fn)
		retTrue := eng.Return("return true", func(g *eng.Graph, rs *ast.ReturnStmt) bool {
			return len(rs.Results) == 1 && nodeText(rs.Results[0]) == "true"
		})
		f.Has("R5", retTrue, 1)
		f.Dom("R5", p.Store("model/exemplar:Exemplar.Value"), retTrue)
		f.Dom("R5", p.Store("model/exemplar:Exemplar.Labels"), retTrue)
		f.Only("R5", p.Store("model/exemplar:Exemplar.Ts"), "is paired with HasTs = true", func(l eng.Loc) bool {
			for _, h := range f.Find(p.Store("model/exemplar:Exemplar.HasTs")) {
				if h.Blk == l.Blk {
					return true
				}
			}
			return false
		})
	}
	// callers: the scrape loops zero the exemplar on every path from a successful call to the next call;
	// the NHCB collector is checked under C36.R6
	for _, fn := range []string{"scrape:scrapeLoopAppender.append", "scrape:scrapeLoopAppenderV2.append"} {
		f := c.Fn(fn)
		zero := eng.Node("e = exemplar.Exemplar{}", func(g *eng.Graph, n ast.Node) bool { return nodeText(n) == "e = exemplar.Exemplar{}" })
		next := eng.Node("hasExemplar = p.Exemplar(&e)", func(g *eng.Graph, n ast.Node) bool { return nodeText(n) == "hasExemplar = p.Exemplar(&e)" })
		f.Has("R5", next, 1)
		f.PassesBetween("R5", eng.CondTest("hasExemplar"), zero, next)
	}
	// ---- R6 the streaming decoder re-uses one Metric: every field of every sub-message is cleared between metrics ----
	{
		CL := "prompb/io/prometheus/client:"
		rm := c.Fn(CL + "MetricStreamingDecoder.resetMetric")
		metric := p.Named(CL + "Metric")
		st := metric.Underlying().(*types.Struct)
		declared := map[string]string{
			"Metric.Label": "labels are decoded lazily into the decoder's own `labels` slice, which is truncated",
		}
		subs := 0
		for i := 0; i < st.NumFields(); i++ {
			fld := st.Field(i)
			if strings.HasPrefix(fld.Name(), "XXX_") {
				continue
			}
			pt, isPtr := fld.Type().(*types.Pointer)
			if !isPtr {
				if _, ok := declared["Metric."+fld.Name()]; ok {
					continue
				}
				rm.Has("R6", p.Store(CL+"Metric."+fld.Name()).Named("reset of Metric."+fld.Name()), 1)
				continue
			}
			sub, ok := pt.Elem().(*types.Named)
			if !ok {
				continue
			}
			subs++
			var missing []string
			for _, sf := range eng.StructFields(sub) {
				if len(rm.Find(p.Store(CL+sub.Obj().Name()+"."+sf))) == 0 {
					missing = append(missing, sf)
				}
			}
			c.Check("R6", rm.Where(), "resetMetric clears every field of the re-used "+sub.Obj().Name()+" message", len(missing) == 0, p.Pos(rm.Body.Pos()), "not cleared (a metric that omits the field inherits the previous metric's value): "+strings.Join(missing, ", "))
		}
		c.Check("R6", rm.Where(), "Metric has five sub-messages", subs == 5, p.Pos(rm.Body.Pos()), fmt.Sprint(subs))
		// ---- R7 the protobuf parser's per-metric cursors restart with every metric ----
		nx := c.Fn(T + "ProtobufParser.Next")
		for _, sw := range nx.EnumSwitches(T + "Entry") {
			for _, arm := range []string{"EntrySeries", "EntryHistogram"} {
				cl := sw.Clauses[arm]
				if cl == nil {
					continue
				}
				body := ""
				for _, s := range cl.Body {
					body += nodeText(s) + " ; "
				}
				i1 := strings.Index(body, "p.exemplarPos = 0")
				i2 := strings.Index(body, "p.dec.NextMetric()")
				c.Check("R7", nx.Where(), "the "+arm+" arm restarts the exemplar cursor before it moves to the next metric", i1 >= 0 && i2 >= 0 && i1 < i2, p.Pos(cl.Pos()), "")
			}
		}
		// the decision "this histogram is handled as a classic one" is one predicate, everywhere
		nSites := 0
		for _, fn := range []string{"ProtobufParser.Next", "ProtobufParser.Histogram"} {
			f := c.Fn(T + fn)
			ast.Inspect(f.Body, func(n ast.Node) bool {
				call, ok := n.(*ast.CallExpr)
				if !ok || nodeText(call.Fun) != "isNativeHistogram" {
					return true
				}
				nSites++
				// the enclosing expression must be `p.ignoreNativeHistograms || !isNativeHistogram(…)`
				okSite := false
				ast.Inspect(f.Body, func(m ast.Node) bool {
					be, isB := m.(*ast.BinaryExpr)
					if isB && be.Op.String() == "||" && nodeText(be.X) == "p.ignoreNativeHistograms" {
						if ue, isU := ast.Unparen(be.Y).(*ast.UnaryExpr); isU && ue.Op.String() == "!" && ue.X == ast.Expr(call) {
							okSite = true
						}
					}
					return true
				})
				c.Check("R7", f.Where(), "a histogram is treated as classic exactly under `p.ignoreNativeHistograms || !isNativeHistogram(…)` (same predicate at every site)", okSite, p.Pos(call.Pos()), nodeText(call))
				return true
			})
		}
		c.Check("R7", T+"ProtobufParser", "sites deciding classic vs native (4 confirmed by reading)", nSites >= 4, "", fmt.Sprint(nSites))
	}
}
