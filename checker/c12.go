package main

import (
	"go/ast"
	"strings"

	"promverif/eng"
)

func init() {
	register(&Property{
		ID:        "C12",
		Title:     "Counter-reset hints returned by queries are sound",
		Technique: "who-may-write rule for the hint field on the read path (only counterResetHint and the two downgrading sites of the merge iterator); decision-function rule for counterResetHint (NotCounterReset only behind `numRead > 1` on a non-gauge chunk); go/cfg all-paths rule that every switch of the merge iterator's current source marks the next sample non-consecutive; sibling rule for AtHistogram/AtFloatHistogram",
		DesignRef: "DESIGN.md §5 C12",
		Level: "Decides that on the read path a histogram's counter-reset hint is only ever produced by counterResetHint(header, numRead) in the chunk iterators, that this function answers 'not a reset' only for the second and later samples read from a non-gauge chunk, " +
			"that the vertical merge iterator records a sample as consecutive only if its source iterator did not change since the previous sample (every replacement of the current iterator is followed by the 'changed' mark before the flag is stored; Seek clears the flag before it repositions), " +
			"that both histogram accessors of the merge iterator downgrade a non-gauge hint to 'unknown' whenever the flag is clear, and that the tombstone/trim wrapper DeletedIterator does the same for a sample reached by skipping deleted ones (finding F11).",
		Note:           "Trusted: go/packages, go/types, go/cfg; rule tables in checker/c12.go.",
		Covers:         "chunkenc.counterResetHint and its callers; writers of Histogram.CounterResetHint / FloatHistogram.CounterResetHint in storage and tsdb (non-test); chainSampleIterator.Next/Seek/AtHistogram/AtFloatHistogram; DeletedIterator.Next/Seek/AtHistogram/AtFloatHistogram.",
		NotCover:       "that the shared reset-detection logic is itself right (value-level; only its agreement across the integer/float and plain/ST copies is decided), PromQL's use of the hint.",
		Run:            runC12,
		MinObligations: 18,
	})
}

func runC12(c *eng.Ctx) {
	p := c.P
	// ---- R2 who produces the hint on the read path ----
	hint := "tsdb/chunkenc:counterResetHint"
	c.CallersSubset("R2", hint, 6,
		"tsdb/chunkenc:histogramIterator.AtHistogram", "tsdb/chunkenc:histogramIterator.AtFloatHistogram",
		"tsdb/chunkenc:floatHistogramIterator.AtFloatHistogram")
	for _, fld := range []string{"model/histogram:Histogram.CounterResetHint", "model/histogram:FloatHistogram.CounterResetHint"} {
		v := p.Field(fld)
		n, bad := 0, ""
		for _, s := range p.Index().FieldSites(v, eng.WriteKinds...) {
			pk := s.Pkg.PkgPath
			if (!strings.HasSuffix(pk, "/storage") && !strings.Contains(pk, "/tsdb")) || strings.HasSuffix(pk, "/tsdb/agent") {
				continue // producers of histograms (scrape, promql arithmetic, conversion) are not the read path
			}
			if strings.HasSuffix(pk, "/tsdb/tsdbutil") {
				continue // generators of test histograms (package of test helpers)
			}
			n++
			ok := false
			switch s.InName {
			case "tsdb/chunkenc:histogramIterator.AtHistogram", "tsdb/chunkenc:histogramIterator.AtFloatHistogram", "tsdb/chunkenc:floatHistogramIterator.AtFloatHistogram":
				// must be the value of counterResetHint(...)
				txt := ""
				switch x := s.Node.(type) {
				case *ast.KeyValueExpr:
					txt = eng.ExprString(x.Value)
				case *ast.SelectorExpr:
					txt = "sel"
				}
				ok = txt == "sel" || strings.HasPrefix(txt, "counterResetHint(")
			case "storage:chainSampleIterator.AtHistogram", "storage:chainSampleIterator.AtFloatHistogram", "tsdb:DeletedIterator.AtHistogram", "tsdb:DeletedIterator.AtFloatHistogram":
				ok = true // downgrade sites, checked below (R1, R4)
			case "tsdb:headAppender.AppendHistogramSTZeroSample", "tsdb:headAppenderV2.Append", "tsdb:headAppenderV2.bestEffortAppendSTZeroSample", "tsdb:headAppender.AppendHistogramCTZeroSample":
				ok = true // write path: synthetic zero sample, explicitly a reset
			case "tsdb/record:DecodeHistogram", "tsdb/record:DecodeFloatHistogram":
				ok = true // WAL replay: input of the appenders (the chunk appenders derive the header themselves), not a query result
			case "tsdb:requireEqualSamples":
				ok = true // test helper compiled into the package (testutil.go): normalises hints before comparing
			}
			if !ok {
				bad += p.Pos(s.Node.Pos()) + " in " + s.InName + "; "
			}
		}
		c.Check("R2", fld, "written in storage/tsdb only by the chunk iterators (from counterResetHint), the merge iterator's downgrade and the synthetic zero samples of the appenders", bad == "" && n >= 4, bad,
			"an additional writer of the hint on the storage side: "+bad)
	}
	for _, fn := range []string{"tsdb/chunkenc:histogramIterator.AtHistogram", "tsdb/chunkenc:histogramIterator.AtFloatHistogram", "tsdb/chunkenc:floatHistogramIterator.AtFloatHistogram"} {
		f := c.Fn(fn)
		f.Only("R2", p.Call(hint), "is computed from this iterator's chunk header and read count", func(l eng.Loc) bool {
			a := eng.CallArgsText(l)
			return len(a) == 2 && a[0] == "it.counterResetHeader" && a[1] == "it.numRead"
		})
		f.Has("R2", p.Call(hint), 2)
	}
	// ---- R3 the decision function ----
	{
		f := c.Fn(hint)
		ret := func(val string) eng.Matcher {
			return eng.Return(val, func(g *eng.Graph, rs *ast.ReturnStmt) bool {
				return len(rs.Results) == 1 && eng.ExprString(rs.Results[0]) == val
			})
		}
		notReset := ret("histogram.NotCounterReset")
		f.Has("R3", notReset, 1)
		f.Dom("R3", eng.CondTest("crh == GaugeType"), notReset)
		f.GivenBranch("crh == GaugeType", true).Unreachable("R3", notReset)
		// reached only through a test `numRead > k` with k ≥ 1
		f.AstEvery("R3", "case returning NotCounterReset", func(n ast.Node) bool {
			cc, ok := n.(*ast.CaseClause)
			return ok && strings.Contains(nodeText(&ast.BlockStmt{List: cc.Body}), "return histogram.NotCounterReset")
		}, "is guarded by numRead > k with k ≥ 1 (never the first sample of a chunk)", func(n ast.Node) bool {
			cc := n.(*ast.CaseClause)
			if len(cc.List) != 1 {
				return false
			}
			be, ok := cc.List[0].(*ast.BinaryExpr)
			if !ok || eng.ExprString(be.X) != "numRead" {
				return false
			}
			tv, ok := f.Info.Types[be.Y]
			if !ok || tv.Value == nil {
				return false
			}
			k := tv.Value.ExactString()
			switch be.Op.String() {
			case ">":
				return k != "0"
			case ">=":
				return k != "0" && k != "1"
			}
			return false
		}, 1)
		f.AstEvery("R3", "default case", func(n ast.Node) bool {
			cc, ok := n.(*ast.CaseClause)
			return ok && cc.List == nil
		}, "answers UnknownCounterReset", func(n ast.Node) bool {
			return strings.Contains(nodeText(&ast.BlockStmt{List: n.(*ast.CaseClause).Body}), "return histogram.UnknownCounterReset")
		}, 1)
	}
	// ---- R4 the sample-skipping wrapper below the merge iterator (finding F11) ----
	// DeletedIterator hides samples covered by tombstones (and by range trimming); the hint of the
	// sample after a hidden one refers to a sample the caller never saw.  Sibling of the merge
	// iterator's rule: both histogram accessors downgrade a non-gauge hint under a flag that Next
	// sets in the arm where it skips a sample and clears on entry.
	{
		D := "tsdb:DeletedIterator"
		down := eng.Node("hint = UnknownCounterReset", func(g *eng.Graph, n ast.Node) bool {
			as, ok := n.(*ast.AssignStmt)
			return ok && len(as.Lhs) == 1 && strings.HasSuffix(eng.ExprString(as.Lhs[0]), ".CounterResetHint") && eng.ExprString(as.Rhs[0]) == "histogram.UnknownCounterReset"
		})
		flag := ""
		for _, m := range []string{"AtHistogram", "AtFloatHistogram"} {
			a := c.Fn(D + "." + m)
			if len(a.Find(down)) == 0 {
				c.Fail("R4", D+"."+m, "a sample reached by skipping deleted samples does not keep the wrapped iterator's hint (downgrade to unknown under a skip flag)", p.Pos(a.Body.Pos()),
					"DeletedIterator."+m+" passes the wrapped chunk iterator's hint through unchanged: after a tombstone removed the first sample of a chunk that started with a counter reset, the next sample is returned as NotCounterReset although it is lower than its predecessor in the result (triage/f11_test.go)")
				continue
			}
			c.Pass("R4", D+"."+m, "a sample reached by skipping deleted samples does not keep the wrapped iterator's hint (downgrade to unknown under a skip flag)", "downgrade present")
			// the guarding flag: a bool field of the iterator read in the controlling condition
			for _, cond := range a.CondExprs() {
				ast.Inspect(cond, func(x ast.Node) bool {
					if se, ok := x.(*ast.SelectorExpr); ok && eng.ExprString(se.X) == "it" {
						flag = se.Sel.Name
					}
					return true
				})
			}
			a.Only("R4", down, "is guarded by the skip flag and the hint not being a gauge's", func(l eng.Loc) bool {
				return flag != "" && a.UnderCond(l, "it."+flag, ".CounterResetHint != histogram.GaugeType")
			})
		}
		if flag != "" {
			nx := c.Fn(D + ".Next")
			set := p.StoreVal(D+"."+flag, "true", eng.IsIdent("true"))
			clr := p.StoreVal(D+"."+flag, "false", eng.IsIdent("false"))
			nx.Has("R4", set, 1)
			nx.Only("R4", set, "lies in the arm that skips a deleted sample", func(l eng.Loc) bool { return nx.UnderCond(l, "tr.InBounds(ts)") })
			nx.Dom("R4", clr, eng.OnVar("it", "AtT"))
			// every skipping arm sets it: the InBounds arm's only way out passes the store
			nx.AstEvery("R4", "arm skipping a deleted sample", func(n ast.Node) bool {
				is, ok := n.(*ast.IfStmt)
				return ok && strings.Contains(eng.ExprString(is.Cond), "InBounds(")
			}, "sets the skip flag before continuing", func(n ast.Node) bool {
				t := nodeText(n.(*ast.IfStmt).Body)
				return strings.Contains(t, "it."+flag+" = true") && strings.Contains(t, "continue")
			}, 1)
			c.Fn(D+".Seek").Dom("R4", clr, eng.CallNamed("Seek"))
			c.WritersSubset("R4", D+"."+flag, 3, D+".Next", D+".Seek")
		}
	}
	// ---- R5 reset detection stays in step between the integer and the float chunk appenders ----
	// (the 'not a reset' hint of every later sample of a chunk rests on appendable having cut the chunk
	// on any decrease; the two bucket-comparison routines are near-copies and are each other's oracle)
	c.SiblingsEqual("R5", "tsdb/chunkenc:expandIntSpansAndBuckets", "tsdb/chunkenc:expandFloatSpansAndBuckets", histRenames, []eng.SiblingDiff{
		{A: "aCount = aBuckets[aCountIdx]", B: "aCount = aBuckets[aCountIdx].value", Why: "float buckets are stored as xor values"},
		{A: "aCount += aBuckets[aCountIdx]", B: "aCount = aBuckets[aCountIdx].value", Why: "integer buckets are deltas, float buckets absolute"},
		{A: "bCount += bBuckets[bCountIdx]", B: "bCount = bBuckets[bCountIdx]", Why: "integer buckets are deltas, float buckets absolute"},
	})
	c.SiblingsEqual("R5", "tsdb/chunkenc:HistogramAppender.appendable", "tsdb/chunkenc:HistogramSTAppender.appendable", histRenames, nil)
	c.SiblingsEqual("R5", "tsdb/chunkenc:FloatHistogramAppender.appendable", "tsdb/chunkenc:FloatHistogramSTAppender.appendable", histRenames, nil)
	c.SiblingsEqual("R5", "storage:chainSampleIterator.AtHistogram", "storage:chainSampleIterator.AtFloatHistogram", histRenames, nil)
	// ---- R1 the merge iterator ----
	{
		S := "storage:chainSampleIterator"
		f := c.Fn(S + ".Next")
		changed := eng.AssignVarVal("iteratorChanged", "true", eng.IsIdent("true"))
		setFlag := p.Store(S + ".consecutive")
		f.Only("R1", setFlag, "stores !iteratorChanged", func(l eng.Loc) bool {
			as, ok := l.Node.(*ast.AssignStmt)
			return ok && eng.ExprString(as.Rhs[0]) == "!iteratorChanged"
		})
		f.Has("R1", setFlag, 1)
		pop := p.StoreVal(S+".curr", "heap.Pop(…)", func(g *eng.Graph, e ast.Expr) bool { return strings.Contains(eng.ExprString(e), "heap.Pop(") })
		f.Has("R1", pop, 1)
		f.PassesBetween("R1", pop, changed, setFlag)
		first := p.StoreVal(S+".curr", "c.iterators[0]", eng.ExprText("c.iterators[0]"))
		f.GivenBranch("c.h == nil", true).Dom("R1", changed, setFlag)
		f.Has("R1", first, 1)
		f.Only("R1", eng.AssignVar("iteratorChanged"), "is only ever set to true (declared false)", func(l eng.Loc) bool {
			switch x := l.Node.(type) {
			case *ast.AssignStmt:
				return eng.ExprString(x.Rhs[0]) == "true"
			case *ast.ValueSpec:
				return len(x.Values) == 0
			}
			return false
		})
		c.WritersSubset("R1", S+".consecutive", 2, S+".Next", S+".Seek")
		c.WritersSubset("R1", S+".curr", 4, S+".Next", S+".Seek", "storage:getChainSampleIterator")
		sk := c.Fn(S + ".Seek")
		clear := p.StoreVal(S+".consecutive", "false", eng.IsIdent("false"))
		sk.Dom("R1", clear, p.Store(S+".curr"))
		sk.Dom("R1", clear, p.Store(S+".h"))
		for _, m := range []string{"AtHistogram", "AtFloatHistogram"} {
			a := c.Fn(S + "." + m)
			down := eng.Node("hint = UnknownCounterReset", func(g *eng.Graph, n ast.Node) bool {
				as, ok := n.(*ast.AssignStmt)
				return ok && len(as.Lhs) == 1 && strings.HasSuffix(eng.ExprString(as.Lhs[0]), ".CounterResetHint") && eng.ExprString(as.Rhs[0]) == "histogram.UnknownCounterReset"
			})
			a.Has("R1", down, 1)
			a.Only("R1", down, "is guarded by exactly `!c.consecutive && hint != GaugeType`", func(l eng.Loc) bool {
				return a.UnderCond(l, "!c.consecutive && ", ".CounterResetHint != histogram.GaugeType")
			})
			a.PassesBetween("R1", eng.CallNamed(m), eng.CondTest("!c.consecutive"), eng.Return("", nil))
		}
	}
}
