package main

import (
	"fmt"
	"go/ast"
	"go/types"
	"strings"

	"promverif/eng"
)

// scanFlags (exploratory, `promverif scanflags`): the shape of F83 module-wide — a bool variable declared outside a loop,
// assigned somewhere inside the loop body and tested by a bare `if v {` at the top level of that body, such that some
// path from the start of the body to the test passes no assignment (the previous iteration's value is used).
func scanFlags(p *eng.Prog) {
	c := eng.NewCtx(p, "x", "quick")
	for _, fs := range p.AllFuncs() {
		if fs.Decl.Body == nil || strings.Contains(p.Pos(fs.Decl.Pos()), "_test.go:") {
			continue
		}
		name := eng.FuncName(fs.Obj)
		ast.Inspect(fs.Decl.Body, func(x ast.Node) bool {
			var body *ast.BlockStmt
			switch l := x.(type) {
			case *ast.RangeStmt:
				body = l.Body
			case *ast.ForStmt:
				body = l.Body
			}
			if body == nil || len(body.List) < 2 {
				return true
			}
			for _, st := range body.List[1:] {
				is, ok := st.(*ast.IfStmt)
				if !ok || is.Init != nil {
					continue
				}
				id, ok := is.Cond.(*ast.Ident)
				if !ok {
					continue
				}
				v, ok := fs.Pkg.TypesInfo.Uses[id].(*types.Var)
				if !ok || v.IsField() || v.Type().String() != "bool" || v.Pos() >= body.Pos() && v.Pos() < body.End() {
					continue
				}
				assigned := false
				ast.Inspect(body, func(y ast.Node) bool {
					if as, ok := y.(*ast.AssignStmt); ok {
						for _, l := range as.Lhs {
							if lid, ok := l.(*ast.Ident); ok && fs.Pkg.TypesInfo.ObjectOf(lid) == v {
								assigned = true
							}
						}
					}
					return true
				})
				if !assigned {
					continue
				}
				func() {
					defer func() { recover() }()
					f := c.Fn(name)
					first, test := body.List[0], is
					a := eng.Node("start of the loop body", func(g *eng.Graph, n ast.Node) bool { return n == ast.Node(first) })
					b := eng.Node("if "+id.Name, func(g *eng.Graph, n ast.Node) bool { return n == ast.Node(test.Cond) })
					if !f.PassesBetween("S", a, eng.AssignVar(id.Name), b) {
						fmt.Printf("%s %s: flag %s may carry the previous iteration's value\n", p.Pos(is.Pos()), name, id.Name)
					}
				}()
			}
			return true
		})
	}
}
