package main

import (
	"go/ast"
	"strings"

	"promverif/eng"
)

// C40.R6 (added for seed C40-d): the watcher replays segments up to "the last segment when it started" for series
// records only and forwards samples from that segment on.  That boundary has to be read before anything slow happens:
// if the head rotates the segment while the checkpoint is being replayed and the boundary is read afterwards, the
// segment that was live at start is treated as old and the samples written to it are skipped without a trace.
func runC40Watch(c *eng.Ctx) {
	p := c.P
	defer runC40Builders(c)
	f := c.Fn("tsdb/wlog:Watcher.Run")
	last := eng.Node("definition of lastSegment", func(g *eng.Graph, n ast.Node) bool {
		as, ok := n.(*ast.AssignStmt)
		if !ok {
			return false
		}
		for _, l := range as.Lhs {
			if nodeText(l) == "lastSegment" {
				return true
			}
		}
		return false
	})
	replay := p.Call("tsdb/wlog:Watcher.readCheckpoint")
	if !f.Has("R6", last, 1) {
		return
	}
	f.Has("R6", replay, 1)
	f.Dom("R6", last, replay)    // the boundary is known before the checkpoint replay starts
	f.NoPath("R6", replay, last) // and is not read again after it
	f.Only("R6", eng.Node("tail decision", func(g *eng.Graph, n ast.Node) bool {
		call, ok := n.(*ast.CallExpr)
		return ok && nodeText(call.Fun) == "w.watch"
	}), "tails exactly the segments from that boundary on", func(l eng.Loc) bool {
		a := eng.CallArgsText(l)
		return len(a) == 2 && a[0] == "currentSegment" && strings.ReplaceAll(a[1], " ", "") == "currentSegment>=lastSegment"
	})
}

// C40.R7 (finding F60): the batch slice is passed to the request builder again on every retry, so filtering it must
// leave nothing behind its returned length that a second pass would keep.  buildV2TimeSeries swaps dropped series to
// the end for that reason; the v1 builder has to be the same code up to the message type — in particular no
// slices.DeleteFunc / Delete / Compact, which zero the tail.
func runC40Builders(c *eng.Ctx) {
	c.SiblingsEqual("R7", "storage/remote:buildTimeSeries", "storage/remote:buildV2TimeSeries", [][2]string{{"writev2.TimeSeries", "prompb.TimeSeries"}, {"buildV2TimeSeries", "buildTimeSeries"}, {` as buildV2TimeSeries does\.`, "."}}, nil)
	for _, fn := range []string{"storage/remote:buildTimeSeries", "storage/remote:buildV2TimeSeries"} {
		f := c.Fn(fn)
		bad := ""
		ast.Inspect(f.Body, func(n ast.Node) bool {
			if call, ok := n.(*ast.CallExpr); ok {
				switch nodeText(call.Fun) {
				case "slices.DeleteFunc", "slices.Delete", "slices.Compact", "slices.CompactFunc":
					bad = nodeText(call.Fun)
				}
			}
			return true
		})
		c.Check("R7", f.Where(), "does not delete elements in place (the caller filters the same slice again on a retry)", bad == "", c.P.Pos(f.Body.Pos()),
			bad+" zeroes the elements behind the new length; the next pass keeps them and they are sent as series without labels and samples")
	}
}
