package main

import (
	"go/ast"
	"go/printer"
	"go/token"
	"sort"
	"strings"
)

type astExpr = ast.Expr

func sortStrings(s []string) { sort.Strings(s) }

type astNode = ast.Node

// nodeText prints a statement or expression on one line.
func nodeText(n ast.Node) string {
	var b strings.Builder
	if err := printer.Fprint(&b, token.NewFileSet(), n); err != nil {
		return ""
	}
	return strings.Join(strings.Fields(b.String()), " ")
}
