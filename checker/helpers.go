package main

import (
	"go/ast"
	"go/printer"
	"go/token"
	"sort"
	"strings"
)

type astExpr = ast.Expr

func sortStrings(s []string) { sort.Strings(s) }

type astNode = ast.Node

// nodeText prints a statement or expression on one line.
func nodeText(n ast.Node) string {
	// comments attached to declarations (the Doc of `var x int` inside a body, of a field, …) would be printed in
	// the middle of the text: detach them while printing
	type saved struct {
		p **ast.CommentGroup
		v *ast.CommentGroup
	}
	var undo []saved
	detach := func(p **ast.CommentGroup) {
		if *p != nil {
			undo = append(undo, saved{p, *p})
			*p = nil
		}
	}
	func() {
		defer func() { _ = recover() }() // synthetic nodes with nil children: print as is
		inspectDetach(n, detach)
	}()
	defer func() {
		for _, u := range undo {
			*u.p = u.v
		}
	}()
	var b strings.Builder
	if err := printer.Fprint(&b, token.NewFileSet(), n); err != nil {
		return ""
	}
	return strings.Join(strings.Fields(b.String()), " ")
}

func inspectDetach(n ast.Node, detach func(**ast.CommentGroup)) {
	ast.Inspect(n, func(x ast.Node) bool {
		switch d := x.(type) {
		case *ast.GenDecl:
			detach(&d.Doc)
		case *ast.ValueSpec:
			detach(&d.Doc)
			detach(&d.Comment)
		case *ast.TypeSpec:
			detach(&d.Doc)
			detach(&d.Comment)
		case *ast.Field:
			detach(&d.Doc)
			detach(&d.Comment)
		case *ast.FuncDecl:
			detach(&d.Doc)
		case *ast.ImportSpec:
			detach(&d.Doc)
			detach(&d.Comment)
		}
		return true
	})
}
