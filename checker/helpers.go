package main

import (
	"go/ast"
	"sort"
)

type astExpr = ast.Expr

func sortStrings(s []string) { sort.Strings(s) }
