package main

import (
	"fmt"
	"go/ast"
	"go/token"
	"sort"
	"strings"

	"promverif/eng"
)

func init() {
	register(&Property{
		ID:        "C34",
		Title:     "Complementary limit_ratio selections partition the input",
		Technique: "linear normal form over the reals of the two selection predicates of HashRatioSampler.AddRatioSampleWithOffset (complement test by substitution r ↦ r-1 and negation); value-derivation rule for the sampling offset; call-shape rules for the limit_ratio branches of the aggregation",
		DesignRef: "DESIGN.md §5 C34",
		Level: "Decides, over the reals: the predicate used for a non-negative ratio r and the predicate used for the negative ratio r-1 are exact complements (strictness included), the sign tests that choose between them are complementary, the first predicate is monotone in r; the sampling offset is computed from the label hash alone; " +
			"both limit_ratio branches of the aggregation add a sample to its group exactly when the sampler says so, with the ratio clamped to [-1, 1]. Does not decide floating-point rounding of 1 + (r - 1) (see observation F18).",
		Note:           "Trusted: go/packages, go/types, go/cfg; rule tables in checker/c34.go.",
		Covers:         "promql: HashRatioSampler.{SampleOffset,AddRatioSample,AddRatioSampleWithOffset}, the LIMIT_RATIO arms of evaluator.aggregationK.",
		NotCover:       "floating-point rounding at the boundary offset; uniformity of the hash; grouping.",
		Run:            runC34,
		MinObligations: 10,
	})
}

func runC34(c *eng.Ctx) {
	p := c.P
	H := "promql:HashRatioSampler"
	f := c.Fn(H + ".AddRatioSampleWithOffset")
	// the single return is (g1 && p1) || (g2 && p2)
	var ret *ast.ReturnStmt
	n := 0
	ast.Inspect(f.Body, func(x ast.Node) bool {
		if rs, ok := x.(*ast.ReturnStmt); ok {
			ret = rs
			n++
		}
		return true
	})
	what := "the selection is (ratioLimit ≥ 0 ∧ P) ∨ (ratioLimit < 0 ∧ Q)"
	var disj [][2]ast.Expr
	if n == 1 && len(ret.Results) == 1 {
		if or, ok := ast.Unparen(ret.Results[0]).(*ast.BinaryExpr); ok && or.Op == token.LOR {
			for _, d := range []ast.Expr{or.X, or.Y} {
				if and, ok := ast.Unparen(d).(*ast.BinaryExpr); ok && and.Op == token.LAND {
					disj = append(disj, [2]ast.Expr{and.X, and.Y})
				}
			}
		}
	}
	if len(disj) != 2 {
		c.Fail("R1", f.Where(), what, p.Pos(f.Body.Pos()), "the function is not a single return of that form (the complement and monotonicity clauses are decided on that form only)")
		runC34Rest(c)
		return
	}
	c.Pass("R1", f.Where(), what, "")
	defer runC34Rest(c)
	g1, g1op, ok1 := eng.LinearCmpReal(f.Info, disj[0][0])
	g2, g2op, ok2 := eng.LinearCmpReal(f.Info, disj[1][0])
	p1, p1op, ok3 := eng.LinearCmpReal(f.Info, disj[0][1])
	p2, p2op, ok4 := eng.LinearCmpReal(f.Info, disj[1][1])
	if !(ok1 && ok2 && ok3 && ok4) {
		c.Fail("R1", f.Where(), "the four comparisons are linear", p.Pos(ret.Pos()), "non-linear comparison")
		return
	}
	show := func(l eng.LinForm, op string) string { return l.String() + " " + op + " 0" }
	// sign guards are complementary and the first is ratioLimit >= 0
	ng, ngop := eng.NegateReal(g1, g1op)
	c.Check("R1", f.Where(), "the two sign tests on ratioLimit are complementary (every ratio takes exactly one predicate)", show(ng, ngop) == show(g2, g2op) && show(g1, g1op) == "-1*ratioLimit <= 0", p.Pos(ret.Pos()), show(g1, g1op)+" | "+show(g2, g2op))
	// Q[ratioLimit := ratioLimit-1] ≡ ¬P
	np, npop := eng.NegateReal(p1, p1op)
	q := p2.Subst("ratioLimit", -1)
	c.Check("R1", f.Where(), "the predicate for ratio r-1 is the exact complement of the predicate for ratio r (over the reals)", show(q, p2op) == show(np, npop), p.Pos(ret.Pos()), "P: "+show(p1, p1op)+"; Q: "+show(p2, p2op)+"; Q[r-1]: "+show(q, p2op)+"; ¬P: "+show(np, npop))
	// P is offset < r: strict, monotone in r, independent of anything else
	c.Check("R1", f.Where(), "the predicate for a non-negative ratio is sampleOffset < ratioLimit (raising the ratio never deselects)", show(p1, p1op) == "-1*ratioLimit +1*sampleOffset < 0", p.Pos(ret.Pos()), show(p1, p1op))
}

func runC34Rest(c *eng.Ctx) {
	p := c.P
	H := "promql:HashRatioSampler"
	// ---- R2 the offset depends on the labels only ----
	so := c.Fn(H + ".SampleOffset")
	so.Only("R2", eng.Return("return", func(g *eng.Graph, rs *ast.ReturnStmt) bool { return true }), "is the label hash scaled by the largest hash", func(l eng.Loc) bool {
		return nodeText(l.Node) == "return float64(metric.Hash()) / float64MaxUint64"
	})
	ar := c.Fn(H + ".AddRatioSample")
	ar.Only("R2", p.Call(H+".SampleOffset"), "is computed from the sample's labels", func(l eng.Loc) bool {
		a := eng.CallArgsText(l)
		return len(a) == 1 && a[0] == "&sample.Metric"
	})
	ar.Only("R2", eng.AssignVar("sampleOffset"), "is the label offset and nothing else", func(l eng.Loc) bool {
		return nodeText(l.Node) == "sampleOffset := s.SampleOffset(&sample.Metric)"
	})
	ar.Only("R2", p.Call(H+".AddRatioSampleWithOffset"), "gets the caller's ratio and that offset", func(l eng.Loc) bool {
		a := eng.CallArgsText(l)
		return len(a) == 2 && a[0] == "ratioLimit" && a[1] == "sampleOffset"
	})
	ar.Only("R2", eng.Return("return", func(g *eng.Graph, rs *ast.ReturnStmt) bool { return true }), "returns the offset test's verdict", func(l eng.Loc) bool {
		return nodeText(l.Node) == "return s.AddRatioSampleWithOffset(ratioLimit, sampleOffset)"
	})

	// ---- R3 aggregation ----
	ag := c.Fn("promql:evaluator.aggregationK")
	add := eng.Node("ratiosampler.AddRatioSample(r, &s)", func(g *eng.Graph, n ast.Node) bool {
		call, ok := n.(*ast.CallExpr)
		return ok && nodeText(call) == "ratiosampler.AddRatioSample(r, &s)"
	})
	ag.Has("R3", add, 2)
	ag.AstEvery("R3", "if-statement testing the sampler", func(n ast.Node) bool {
		is, ok := n.(*ast.IfStmt)
		return ok && nodeText(is.Cond) == "ratiosampler.AddRatioSample(r, &s)"
	}, "pushes exactly this sample to its group and has no else arm", func(n ast.Node) bool {
		is := n.(*ast.IfStmt)
		return is.Else == nil && nodeText(is.Body) == "{ heap.Push(&group.heap, &s) }"
	}, 2)
	// the range evaluation skips the whole aggregation only when the ratio is zero at every step (max and min both zero)
	ra := c.Fn("promql:evaluator.rangeEvalAgg")
	nEarly := 0
	for _, sw := range ra.EnumSwitches("promql/parser:ItemType") {
		cl := sw.Clauses["LIMIT_RATIO"]
		if cl == nil || len(cl.List) != 1 {
			continue // arms shared with topk/bottomk/limitk do not decide on the ratio
		}
		for _, st := range cl.Body {
			ast.Inspect(st, func(x ast.Node) bool {
				rs, ok := x.(*ast.ReturnStmt)
				if !ok {
					return true
				}
				nEarly++
				conds := ra.CondsOf(rs)
				inner := ""
				if len(conds) > 0 {
					inner = conds[len(conds)-1]
				}
				parts := strings.Split(strings.TrimSuffix(inner, "=T"), " && ")
				sort.Strings(parts)
				c.Check("R3", ra.Where(), "an early return of the limit_ratio range evaluation requires the ratio to be zero at every step", strings.HasSuffix(inner, "=T") && strings.Join(parts, " && ") == "params.Max() == 0 && params.Min() == 0", p.Pos(rs.Pos()), inner)
				return true
			})
		}
	}
	c.Check("R3", ra.Where(), "the limit_ratio arm of the range evaluation has one early return", nEarly == 1, p.Pos(ra.Body.Pos()), fmt.Sprintf("%d", nEarly))
	clamp := map[string]string{}
	ast.Inspect(ag.Body, func(x ast.Node) bool {
		sw, ok := x.(*ast.SwitchStmt)
		if !ok || sw.Tag != nil || !strings.Contains(nodeText(sw), "r = fParam") {
			return true
		}
		for _, cl := range sw.Body.List {
			cc := cl.(*ast.CaseClause)
			key := "default"
			if len(cc.List) == 1 {
				key = nodeText(cc.List[0])
			}
			var body []string
			for _, st := range cc.Body {
				body = append(body, nodeText(st))
			}
			clamp[key] = strings.Join(body, "; ")
		}
		return false
	})
	c.Check("R3", ag.Where(), "the ratio handed to the sampler is the parameter clamped to [-1, 1]", clamp["fParam < -1.0"] == "r = -1.0" && clamp["fParam > 1.0"] == "r = 1.0" && clamp["default"] == "r = fParam" && len(clamp) == 4 && strings.HasSuffix(clamp["fParam == 0"], "return nil, annos"),
		p.Pos(ag.Body.Pos()), eng.KV(clamp))
	ag.Only("R3", eng.AssignVar("r"), "is assigned only by the clamp", func(l eng.Loc) bool {
		if _, ok := l.Node.(*ast.AssignStmt); !ok {
			return true
		}
		t := nodeText(l.Node)
		return t == "r = -1.0" || t == "r = 1.0" || t == "r = fParam"
	})
}
