package main

import (
	"go/ast"

	"promverif/eng"
)

func init() {
	register(&Property{
		ID:        "C53",
		Title:     "A read-only open returns what a read-write open would, and changes nothing",
		Technique: "call-graph no-reach (go/ssa + VTA, module-internal) from the read-only entry points to every mutating primitive; def-use check that every Head.Init cutoff has one source; go/cfg order rules for the sandbox",
		DesignRef: "DESIGN.md §5 C53",
		Level: "Decides that no module-internal call path leads from the read-only query entry points to a WAL/WBL write, truncation, repair, checkpoint, tombstone/meta write or block write; " +
			"that the read-only head only ever gets the sandbox as chunk directory and has its logs detached before use; and that every Head.Init call site derives its replay cutoff " +
			"from the same class-aware function as the read-write open (finding F2, repaired).",
		Note:           "Trusted: go/packages, go/ssa, VTA call graph restricted to module functions (+ conservative edges for closures, function values and conversions to non-module interfaces); rule tables in checker/c53.go.",
		Covers:         "no-reach from DBReadOnly.{Querier,ChunkQuerier,Blocks,Block,LastBlockID,loadDataAsQueryable} to 11 mutating primitives; wlog.Open-only; ChunkDirRoot=sandbox; wal/wbl detached; sandbox removal on Close; single source of the WAL replay cutoff for all three Head.Init call sites.",
		NotCover:       "equality of query results between the two open modes beyond the shared cutoff; file-system effects of os-level calls made by code outside the module.",
		Run:            runC53,
		MinObligations: 25,
	})
}

func runC53(c *eng.Ctx) {
	defer runC53Replay(c)
	p := c.P
	// ---- R1 no write primitive reachable from the read-only query paths ----
	mutators := []string{
		"tsdb/wlog:WL.Log", "tsdb/wlog:WL.NextSegment", "tsdb/wlog:WL.Truncate", "tsdb/wlog:WL.Repair", "tsdb/wlog:Checkpoint", "tsdb/wlog:DeleteCheckpoints", "tsdb/wlog:DeleteTempCheckpoints", "tsdb/tsdbutil:RemoveTmpDirs",
		"tsdb/tombstones:WriteFile", "tsdb:writeMetaFile", "tsdb:LeveledCompactor.write", "tsdb:DB.deleteBlocks", "tsdb:Head.truncateWAL",
	}
	// Cuts of the call graph, each justified by a rule below:
	//  - Head.performChunkSnapshot / Head.writeSeriesState: only with EnableMemorySnapshotOnShutdown / EnableFastStartup,
	//    which DefaultHeadOptions (the only source of the read-only head's options) leaves off;
	//  - index.Writer.Close: VTA resolves the io.Closer-style Close in DBReadOnly.Blocks to it, but no index.Writer
	//    can exist on these paths: its constructors are not reachable.
	cuts := []string{"tsdb:Head.performChunkSnapshot", "tsdb:Head.writeSeriesState", "tsdb/index:Writer.Close"}
	for _, from := range []string{"tsdb:DBReadOnly.Querier", "tsdb:DBReadOnly.ChunkQuerier", "tsdb:DBReadOnly.Blocks", "tsdb:DBReadOnly.Block"} {
		c.NoReachSSA("R1", from, []string{"tsdb/index:NewWriterWithEncoder", "tsdb/index:NewFileWriter", "tsdb/chunks:NewWriter"}, cuts[:2]...)
	}
	// (DBReadOnly.LastBlockID only lists directories: it calls nothing in the module.)
	for _, from := range []string{"tsdb:DBReadOnly.Querier", "tsdb:DBReadOnly.ChunkQuerier", "tsdb:DBReadOnly.Blocks", "tsdb:DBReadOnly.Block",
		"tsdb:DBReadOnly.loadDataAsQueryable"} {
		// Head.Close may snapshot the head (a WAL-like write) when EnableMemorySnapshotOnShutdown is set; the
		// read-only head is built from DefaultHeadOptions (checked below), where it is off.  The graph is cut there.
		c.NoReachSSA("R1", from, mutators, cuts...)
	}
	// Every module function reachable from the read-only query paths that calls a file-system
	// mutating function of the standard library (or the fileutil rename helpers) is in the table
	// below, with the reason why it only ever touches the sandbox.  A new one must be classified.
	{
		fsMut := []string{"os:Remove", "os:RemoveAll", "os:Rename", "os:Create", "os:Mkdir", "os:MkdirAll", "os:MkdirTemp", "os:WriteFile", "os:Truncate",
			"os:OpenFile", "os:Link", "os:Symlink", "os:CreateTemp", "tsdb/fileutil:Replace", "tsdb/fileutil:Rename"}
		sandboxOnly := map[string]string{
			"tsdb/chunks:HardLinkChunkFiles":              "creates the sandbox chunks_head directory and links into it",
			"tsdb/chunks:ChunkDiskMapper.openMMapFiles":   "operates on HeadOptions.ChunkDirRoot (= sandbox, R2)",
			"tsdb/chunks:ChunkDiskMapper.cut":             "operates on ChunkDirRoot (= sandbox, R2)",
			"tsdb/chunks:ChunkDiskMapper.deleteFiles":     "operates on ChunkDirRoot (= sandbox, R2)",
			"tsdb/chunks:ChunkDiskMapper.DeleteCorrupted": "operates on ChunkDirRoot (= sandbox, R2)",
			"tsdb/chunks:NewChunkDiskMapper":              "MkdirAll of ChunkDirRoot (= sandbox, R2)",
			"tsdb/chunks:repairLastChunkFile":             "operates on ChunkDirRoot (= sandbox, R2)",
			"tsdb/chunks:cutSegmentFile":                  "operates on ChunkDirRoot (= sandbox, R2)",
			"tsdb:DeleteChunkSnapshots":                   "operates on ChunkDirRoot (= sandbox, R2); snapshots are not linked into the sandbox",
			"tsdb:Head.ChunkSnapshot":                     "cut away: only with EnableMemorySnapshotOnShutdown (off in DefaultHeadOptions)",
			"tsdb/fileutil:Rename":                        "helper, reached only through the functions above",
			"tsdb/fileutil:Replace":                       "helper, reached only through the functions above",
			"tsdb/fileutil:preallocExtend":                "preallocation of a file created by the functions above",
			"tsdb/fileutil:CopyDirs":                      "not reachable today; listed for completeness",
		}
		reach := map[string]bool{}
		for _, from := range []string{"tsdb:DBReadOnly.Querier", "tsdb:DBReadOnly.ChunkQuerier", "tsdb:DBReadOnly.Blocks", "tsdb:DBReadOnly.Block"} {
			for f := range c.ReachableDecls(from, cuts...) {
				reach[eng.FuncName(f)] = true
			}
		}
		ix := p.Index()
		n, bad := 0, 0
		for _, m := range fsMut {
			f := p.TryFunc(m)
			if f == nil {
				continue
			}
			for _, s := range ix.CallersOf(f) {
				if !reach[s.InName] {
					continue
				}
				n++
				if _, ok := sandboxOnly[s.InName]; !ok {
					bad++
					path := c.WitnessPath("tsdb:DBReadOnly.Querier", s.In, cuts...)
					c.Fail("R1", s.InName, "file-system mutators reachable from the read-only query paths are classified as sandbox-only", p.Pos(s.Node.Pos()),
						s.InName+" calls "+m+" and is reachable from DBReadOnly.Querier/ChunkQuerier/Blocks/Block, but is not in the sandbox-only table; path: "+path)
				}
			}
		}
		if bad == 0 {
			c.Check("R1", "tsdb:DBReadOnly", "file-system mutators reachable from the read-only query paths are classified as sandbox-only", n >= 3, "",
				"fewer than 3 reachable mutator call sites found: the reachability computation is broken")
		}
	}
	// positive controls: the same graph finds the paths that are known to exist
	c.MustReachSSA("R1", "tsdb:DBReadOnly.FlushWAL", "tsdb:LeveledCompactor.write") // FlushWAL writes a block on purpose (to a caller-chosen dir)
	c.MustReachSSA("R1", "tsdb:DB.Compact", "tsdb/wlog:WL.Truncate")
	c.MustReachSSA("R1", "tsdb:DBReadOnly.Querier", "tsdb:Head.loadWAL")
	c.MustReachSSA("R1", "tsdb:headAppenderBase.Commit", "tsdb/wlog:WL.Log")
	for _, fn := range []string{"tsdb:DBReadOnly.loadDataAsQueryable", "tsdb:DBReadOnly.FlushWAL"} {
		f := c.Fn(fn)
		f.Hasnt("R1", p.Call("tsdb/wlog:New", "tsdb/wlog:NewSize"))
		f.Has("R1", p.Call("tsdb/wlog:Open"), 1)
		// options of the read-only head come from DefaultHeadOptions only
		f.ArgDerivesOnlyFrom("R1", p.Call("tsdb:NewHead"), 4, "DefaultHeadOptions()", p.IsCallTo("tsdb:DefaultHeadOptions"))
	}
	c.Fn("tsdb:DefaultHeadOptions").Hasnt("R1", eng.Node("EnableMemorySnapshotOnShutdown: true", func(g *eng.Graph, n ast.Node) bool {
		kv, ok := n.(*ast.KeyValueExpr)
		if !ok {
			return false
		}
		id, ok := kv.Key.(*ast.Ident)
		return ok && (id.Name == "EnableMemorySnapshotOnShutdown" || id.Name == "EnableFastStartup") && eng.ExprString(kv.Value) != "false"
	}))
	// wlog.Open gives a reader-only WL: no segment is opened for writing
	c.Fn("tsdb/wlog:Open").Hasnt("R1", p.Call("tsdb/wlog:CreateSegment", "tsdb/wlog:OpenWriteSegment"))

	// ---- R2 sandbox ----
	{
		f := c.Fn("tsdb:DBReadOnly.loadDataAsQueryable")
		f.Only("R2", p.Store("tsdb:HeadOptions.ChunkDirRoot"), "= db.sandboxDir", func(l eng.Loc) bool {
			as := l.Node.(*ast.AssignStmt)
			return len(as.Rhs) == 1 && p.IsFieldExpr("tsdb:DBReadOnly.sandboxDir")(f.Graph, as.Rhs[0])
		})
		f.Dom("R2", p.Store("tsdb:HeadOptions.ChunkDirRoot"), p.Call("tsdb:NewHead"))
		init := p.Call("tsdb:Head.Init")
		f.AllPaths("R2", init, p.StoreVal("tsdb:Head.wal", "nil", eng.IsIdent("nil")), eng.OKExit)
		f.AllPaths("R2", init, p.StoreVal("tsdb:Head.wbl", "nil", eng.IsIdent("nil")), eng.OKExit)
		f.Dom("R2", p.Call("tsdb/chunks:HardLinkChunkFiles"), p.Call("tsdb:NewHead"))
		cl := c.Fn("tsdb:DBReadOnly.Close")
		cl.Has("R2", eng.Deferred(p.Call("os:RemoveAll").WithArg(0, "db.sandboxDir", p.IsFieldExpr("tsdb:DBReadOnly.sandboxDir"))), 1)
		c.WritersSubset("R2", "tsdb:DBReadOnly.sandboxDir", 1, "tsdb:OpenDBReadOnly")
	}

	// ---- R3 one source for the WAL replay cutoff ----
	// BlockWriter.initHead initialises a fresh, private head in a temporary directory: there are no blocks, cutoff MinInt64.
	c.CallersSubset("R3", "tsdb:Head.Init", 4, "tsdb:open", "tsdb:DBReadOnly.loadDataAsQueryable", "tsdb:DBReadOnly.FlushWAL", "tsdb:BlockWriter.initHead")
	c.Fn("tsdb:BlockWriter.initHead").ArgDerivesOnlyFrom("R3", p.Call("tsdb:Head.Init"), 0, "math.MinInt64", eng.ExprText("math.MinInt64"))
	src := eng.AnyOf(p.IsCallTo("tsdb:DB.inOrderBlocksMaxTime", "tsdb:inOrderBlocksMaxTime"), eng.ExprText("int64(math.MinInt64)"))
	for _, fn := range []string{"tsdb:open", "tsdb:DBReadOnly.loadDataAsQueryable", "tsdb:DBReadOnly.FlushWAL"} {
		f := c.Fn(fn)
		f.ArgDerivesOnlyFrom("R3", p.Call("tsdb:Head.Init"), 0, "inOrderBlocksMaxTime", src)
	}
	// the decision whether the WAL is replayed at all compares the requested maxt with the same cutoff
	{
		f := c.Fn("tsdb:DBReadOnly.loadDataAsQueryable")
		n := 0
		ast.Inspect(f.Body, func(x ast.Node) bool {
			be, ok := x.(*ast.BinaryExpr)
			if !ok || !f.IsCondOperand(be) {
				return true
			}
			var other ast.Expr
			if eng.IsIdent("maxt")(f.Graph, be.X) {
				other = be.Y
			} else if eng.IsIdent("maxt")(f.Graph, be.Y) {
				other = be.X
			} else {
				return true
			}
			n++
			ok, bad, why := f.ValueDerivesOnlyFrom(other, src)
			pos := p.Pos(be.Pos())
			if bad != nil {
				pos = p.Pos(bad.Pos())
			}
			c.Check("R3", f.Where(), "what the requested maxt is compared with derives only from inOrderBlocksMaxTime", ok, pos, why)
			return true
		})
		if n == 0 {
			c.Fail("R3", f.Where(), "what the requested maxt is compared with derives only from inOrderBlocksMaxTime", p.Pos(f.Body.Pos()),
				"no branch condition compares the parameter maxt any more (the WAL-needed decision changed shape)")
		}
	}
	// and the method is the generic helper
	c.Fn("tsdb:DB.inOrderBlocksMaxTime").DomOK("R3", p.Call("tsdb:inOrderBlocksMaxTime"))
	g := c.Fn("tsdb:inOrderBlocksMaxTime")
	for _, m := range []string{"FromOutOfOrder", "FromStaleSeries", "FromSelectedSeries"} {
		g.Has("R3", p.Call("tsdb:BlockMetaCompaction."+m), 1)
	}
}
