package main

import (
	"go/ast"

	"promverif/eng"
)

func init() {
	register(&Property{
		ID:        "C53",
		Title:     "A read-only open returns what a read-write open would, and changes nothing",
		Technique: "call-graph no-reach (go/ssa + VTA, module-internal) from the read-only entry points to every mutating primitive; def-use check that every Head.Init cutoff has one source; go/cfg order rules for the sandbox",
		DesignRef: "DESIGN.md §5 C53",
		Level: "Decides that no module-internal call path leads from the read-only query entry points to a WAL/WBL write, truncation, repair, checkpoint, tombstone/meta write or block write; " +
			"that the read-only head only ever gets the sandbox as chunk directory and has its logs detached before use; and that every Head.Init call site derives its replay cutoff " +
			"from the same class-aware function as the read-write open (finding F2, repaired).",
		Note:     "Trusted: go/packages, go/ssa, VTA call graph restricted to module functions (+ conservative edges for closures, function values and conversions to non-module interfaces); rule tables in checker/c53.go.",
		Covers:   "no-reach from DBReadOnly.{Querier,ChunkQuerier,Blocks,Block,LastBlockID,loadDataAsQueryable} to 11 mutating primitives; wlog.Open-only; ChunkDirRoot=sandbox; wal/wbl detached; sandbox removal on Close; single source of the WAL replay cutoff for all three Head.Init call sites.",
		NotCover: "equality of query results between the two open modes beyond the shared cutoff; file-system effects of os-level calls made by code outside the module.",
		Run:      runC53,
		MinObligations: 25,
	})
}

func runC53(c *eng.Ctx) {
	p := c.P
	// ---- R1 no write primitive reachable from the read-only query paths ----
	mutators := []string{
		"tsdb/wlog:WL.Log", "tsdb/wlog:WL.NextSegment", "tsdb/wlog:WL.Truncate", "tsdb/wlog:WL.Repair", "tsdb/wlog:Checkpoint", "tsdb/wlog:DeleteCheckpoints",
		"tsdb/tombstones:WriteFile", "tsdb:writeMetaFile", "tsdb:LeveledCompactor.write", "tsdb:DB.deleteBlocks", "tsdb:Head.truncateWAL",
	}
	// (DBReadOnly.LastBlockID only lists directories: it calls nothing in the module.)
	for _, from := range []string{"tsdb:DBReadOnly.Querier", "tsdb:DBReadOnly.ChunkQuerier", "tsdb:DBReadOnly.Blocks", "tsdb:DBReadOnly.Block",
		"tsdb:DBReadOnly.loadDataAsQueryable"} {
		// Head.Close may snapshot the head (a WAL-like write) when EnableMemorySnapshotOnShutdown is set; the
		// read-only head is built from DefaultHeadOptions (checked below), where it is off.  The graph is cut there.
		c.NoReachSSA("R1", from, mutators, "tsdb:Head.performChunkSnapshot")
	}
	// positive controls: the same graph finds the paths that are known to exist
	c.MustReachSSA("R1", "tsdb:DBReadOnly.FlushWAL", "tsdb:LeveledCompactor.write") // FlushWAL writes a block on purpose (to a caller-chosen dir)
	c.MustReachSSA("R1", "tsdb:DB.Compact", "tsdb/wlog:WL.Truncate")
	c.MustReachSSA("R1", "tsdb:DBReadOnly.Querier", "tsdb:Head.loadWAL")
	c.MustReachSSA("R1", "tsdb:headAppenderBase.Commit", "tsdb/wlog:WL.Log")
	for _, fn := range []string{"tsdb:DBReadOnly.loadDataAsQueryable", "tsdb:DBReadOnly.FlushWAL"} {
		f := c.Fn(fn)
		f.Hasnt("R1", p.Call("tsdb/wlog:New", "tsdb/wlog:NewSize"))
		f.Has("R1", p.Call("tsdb/wlog:Open"), 1)
		// options of the read-only head come from DefaultHeadOptions only
		f.ArgDerivesOnlyFrom("R1", p.Call("tsdb:NewHead"), 4, "DefaultHeadOptions()", p.IsCallTo("tsdb:DefaultHeadOptions"))
	}
	c.Fn("tsdb:DefaultHeadOptions").Hasnt("R1", eng.Node("EnableMemorySnapshotOnShutdown: true", func(g *eng.Graph, n ast.Node) bool {
		kv, ok := n.(*ast.KeyValueExpr)
		if !ok {
			return false
		}
		id, ok := kv.Key.(*ast.Ident)
		return ok && id.Name == "EnableMemorySnapshotOnShutdown" && eng.ExprString(kv.Value) != "false"
	}))
	// wlog.Open gives a reader-only WL: no segment is opened for writing
	c.Fn("tsdb/wlog:Open").Hasnt("R1", p.Call("tsdb/wlog:CreateSegment", "tsdb/wlog:OpenWriteSegment"))

	// ---- R2 sandbox ----
	{
		f := c.Fn("tsdb:DBReadOnly.loadDataAsQueryable")
		f.Only("R2", p.Store("tsdb:HeadOptions.ChunkDirRoot"), "= db.sandboxDir", func(l eng.Loc) bool {
			as := l.Node.(*ast.AssignStmt)
			return len(as.Rhs) == 1 && p.IsFieldExpr("tsdb:DBReadOnly.sandboxDir")(f.Graph, as.Rhs[0])
		})
		f.Dom("R2", p.Store("tsdb:HeadOptions.ChunkDirRoot"), p.Call("tsdb:NewHead"))
		init := p.Call("tsdb:Head.Init")
		f.AllPaths("R2", init, p.StoreVal("tsdb:Head.wal", "nil", eng.IsIdent("nil")), eng.OKExit)
		f.AllPaths("R2", init, p.StoreVal("tsdb:Head.wbl", "nil", eng.IsIdent("nil")), eng.OKExit)
		f.Dom("R2", p.Call("tsdb/chunks:HardLinkChunkFiles"), p.Call("tsdb:NewHead"))
		cl := c.Fn("tsdb:DBReadOnly.Close")
		cl.Has("R2", eng.Deferred(p.Call("os:RemoveAll").WithArg(0, "db.sandboxDir", p.IsFieldExpr("tsdb:DBReadOnly.sandboxDir"))), 1)
		c.WritersSubset("R2", "tsdb:DBReadOnly.sandboxDir", 1, "tsdb:OpenDBReadOnly")
	}

	// ---- R3 one source for the WAL replay cutoff ----
	// BlockWriter.initHead initialises a fresh, private head in a temporary directory: there are no blocks, cutoff MinInt64.
	c.CallersSubset("R3", "tsdb:Head.Init", 4, "tsdb:open", "tsdb:DBReadOnly.loadDataAsQueryable", "tsdb:DBReadOnly.FlushWAL", "tsdb:BlockWriter.initHead")
	c.Fn("tsdb:BlockWriter.initHead").ArgDerivesOnlyFrom("R3", p.Call("tsdb:Head.Init"), 0, "math.MinInt64", eng.ExprText("math.MinInt64"))
	src := eng.AnyOf(p.IsCallTo("tsdb:DB.inOrderBlocksMaxTime", "tsdb:inOrderBlocksMaxTime"), eng.ExprText("int64(math.MinInt64)"))
	for _, fn := range []string{"tsdb:open", "tsdb:DBReadOnly.loadDataAsQueryable", "tsdb:DBReadOnly.FlushWAL"} {
		f := c.Fn(fn)
		f.ArgDerivesOnlyFrom("R3", p.Call("tsdb:Head.Init"), 0, "inOrderBlocksMaxTime", src)
	}
	// and the method is the generic helper
	c.Fn("tsdb:DB.inOrderBlocksMaxTime").DomOK("R3", p.Call("tsdb:inOrderBlocksMaxTime"))
	g := c.Fn("tsdb:inOrderBlocksMaxTime")
	for _, m := range []string{"FromOutOfOrder", "FromStaleSeries", "FromSelectedSeries"} {
		g.Has("R3", p.Call("tsdb:BlockMetaCompaction."+m), 1)
	}
}
