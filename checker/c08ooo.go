package main

import (
	"go/ast"
	"strings"

	"promverif/eng"
)

// C08.R5 / C03 (finding F61): CompactBlockMetas keeps the from-out-of-order hint only if every input has it, and
// inOrderBlocksMaxTime — the cutoff below which WAL samples are discarded at start-up — counts every block without a
// hint.  So a merge that mixes an out-of-order block with in-order blocks is sound only if the in-order inputs cover
// the out-of-order block's range, i.e. in the overlapping selection.  The horizontal selection (selectDirs: adjacent,
// non-overlapping blocks of one range) must therefore skip a range that mixes the two.
func runC08OOO(c *eng.Ctx) {
	p := c.P
	f := c.Fn("tsdb:LeveledCompactor.selectDirs")
	var loop *ast.RangeStmt
	ast.Inspect(f.Body, func(x ast.Node) bool {
		rs, ok := x.(*ast.RangeStmt)
		if ok && nodeText(rs.X) == "parts" {
			loop = rs
		}
		return true
	})
	if loop == nil {
		c.Fail("R5", f.Where(), "loop over the candidate ranges found", p.Pos(f.Body.Pos()), "")
		return
	}
	body := nodeText(loop.Body)
	tested := strings.Contains(body, ".Compaction.FromOutOfOrder()")
	skips := false
	ast.Inspect(loop.Body, func(x ast.Node) bool {
		is, ok := x.(*ast.IfStmt)
		if !ok || !strings.HasSuffix(nodeText(is.Body), "continue Outer }") {
			return true
		}
		t := strings.ReplaceAll(nodeText(is.Cond), " ", "")
		if t == "ooo&&notOOO" || t == "notOOO&&ooo" || strings.Contains(t, "FromOutOfOrder") {
			skips = true
		}
		return true
	})
	c.Check("R5", f.Where(), "a candidate range that mixes from-out-of-order blocks with other blocks is skipped by the horizontal selection", tested && skips, p.Pos(loop.Pos()),
		"the merged block would lose the hint and advance the WAL-replay cutoff past in-order samples that exist only in the head/WAL: a restart discards them")
	// the two facts the argument rests on
	cb := c.Fn("tsdb:CompactBlockMetas")
	c.Check("R5", cb.Where(), "the merged meta keeps the from-out-of-order hint only if every input carries it", strings.Contains(nodeText(cb.Body), "if allOutOfOrder { res.Compaction.SetOutOfOrder() }") && strings.Contains(nodeText(cb.Body), "if !b.Compaction.FromOutOfOrder() { allOutOfOrder = false }"), p.Pos(cb.Body.Pos()), "")
	io := c.Fn("tsdb:inOrderBlocksMaxTime")
	c.Check("R5", io.Where(), "the start-up cutoff ignores exactly the blocks that carry a from-out-of-order / stale-series / selected-series hint", strings.Contains(nodeText(io.Body), "!meta.Compaction.FromOutOfOrder() && !meta.Compaction.FromStaleSeries() && !meta.Compaction.FromSelectedSeries() && meta.MaxTime > maxt"), p.Pos(io.Body.Pos()), "")
}
