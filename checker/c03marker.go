package main

import (
	"go/ast"
	"strings"

	"promverif/eng"
)

// C03.R7 (added for seed C03-c): an out-of-order m-map marker in the WBL says "this chunk is on disk, forget the
// samples replayed so far".  It may be honoured only if the chunk was actually found when the m-mapped chunks were
// loaded; a marker is dangling if its reference lies beyond the last loaded reference, compared as (file sequence,
// offset) — the file alone is not enough, because the chunk may still have been in the write buffer of a file that
// already holds earlier chunks.
func runC03Marker(c *eng.Ctx) {
	p := c.P
	f := c.Fn("tsdb:Head.loadWBL")
	var arm *ast.CaseClause
	ast.Inspect(f.Body, func(x ast.Node) bool {
		cc, ok := x.(*ast.CaseClause)
		if ok && len(cc.List) == 1 && nodeText(cc.List[0]) == "[]record.RefMmapMarker" {
			arm = cc
		}
		return true
	})
	if arm == nil {
		c.Fail("R7", f.Where(), "m-map marker arm found", p.Pos(f.Body.Pos()), "")
		return
	}
	var skip *ast.IfStmt
	ast.Inspect(&ast.BlockStmt{List: arm.Body}, func(x ast.Node) bool {
		is, ok := x.(*ast.IfStmt)
		if ok && skip == nil && strings.Contains(nodeText(is.Cond), "lastSeq") || ok && skip == nil && strings.Contains(nodeText(is.Cond), "lastMmapRef") {
			skip = is
		}
		return true
	})
	okCond := false
	cond := ""
	if skip != nil {
		cond = strings.ReplaceAll(nodeText(skip.Cond), " ", "")
		okCond = (cond == "seq>lastSeq||(seq==lastSeq&&off>lastOff)" || cond == "seq>lastSeq||seq==lastSeq&&off>lastOff" || cond == "rm.MmapRef>lastMmapRef") && strings.HasSuffix(nodeText(skip.Body), "continue }")
	}
	c.Check("R7", f.Where(), "a marker is skipped as dangling exactly when its reference is beyond the last loaded one in (file sequence, offset) order", okCond, p.Pos(arm.Pos()),
		"condition "+cond+": a marker for a chunk that was still in the write buffer of the current file is honoured, and the acknowledged out-of-order samples it stands for are dropped")
}
