package main

import (
	"fmt"
	"go/ast"
	"strings"

	"promverif/eng"
)

func init() {
	register(&Property{
		ID:        "C40",
		Title:     "Remote write delivers every kept sample, per series in WAL order",
		Technique: "go/cfg order rules for resharding, queue hand-over and shutdown; sibling obligations over the four QueueManager.Append* retry loops (AST + CFG); must-hold lockset for the series tables, the shard table and the per-queue batch; def-use rule for the shard index; enum exhaustiveness of the watcher's record switch",
		DesignRef: "DESIGN.md §5 C40",
		Level: "Decides that resharding stops (flushes) the old shards before starting new ones and that only Start/Stop/reshardLoop start or stop shards; that each of the four Append* loops leaves a sample only by counting it as dropped, by a successful enqueue, or by returning false on shutdown, and enqueues under the same ref whose labels it looked up; " +
			"that the shard is chosen from the series ref and the shard count alone, under the shard lock and after the soft-shutdown test; that a partial batch is handed out only when no full batch is queued before it, is retried while the hand-over channel is full and is discarded only after that; " +
			"that external labels are attached before write relabeling and the relabeled set is what is stored; and that the watcher forwards every sample-bearing record type.",
		Note:           "Trusted: go/packages, go/types, go/cfg; receiver-insensitive lock identification; rule tables in checker/c40.go.",
		Covers:         "QueueManager.Append/AppendExemplars/AppendHistograms/AppendFloatHistograms, StoreSeries, SeriesReset, reshardLoop, shards.start/stop/enqueue, queue.Append/Batch/FlushAndShutdown/tryEnqueueingBatch, runShard, Watcher.readSegment.",
		NotCover:       "retry/backoff timing, contents of requests, age-limit arithmetic, order inside the fake client.",
		Run:            runC40,
		MinObligations: 70,
	})
}

func runC40(c *eng.Ctx) {
	defer runC40Watch(c)
	p := c.P
	Q := "storage/remote:QueueManager"
	// ---- R1 resharding: stop (flush) before start ----
	{
		f := c.Fn(Q + ".reshardLoop")
		stop, start := p.Call("storage/remote:shards.stop"), p.Call("storage/remote:shards.start")
		f.Dom("R1", stop, start)
		c.CallersSubset("R1", "storage/remote:shards.start", 2, Q+".Start", Q+".reshardLoop")
		c.CallersSubset("R1", "storage/remote:shards.stop", 2, Q+".Stop", Q+".reshardLoop")
		st := c.Fn("storage/remote:shards.stop")
		closeSoft := eng.Node("close(s.softShutdown)", func(g *eng.Graph, n ast.Node) bool {
			call, ok := n.(*ast.CallExpr)
			return ok && eng.ExprString(call.Fun) == "close" && len(call.Args) == 1 && eng.ExprIsField(g.Info, call.Args[0], p.Field("storage/remote:shards.softShutdown"))
		})
		flush := eng.GoStarted(p.Call("storage/remote:queue.FlushAndShutdown"))
		st.Dom("R1", closeSoft, flush)
		st.DomOK("R1", eng.LoopOver(flush))
		st.AstEvery("R1", "loop starting FlushAndShutdown", st.RangeLoopWith(p.Call("storage/remote:queue.FlushAndShutdown")), "ranges over s.queues", func(n ast.Node) bool {
			return eng.ExprIsField(st.Info, n.(*ast.RangeStmt).X, p.Field("storage/remote:shards.queues"))
		}, 1)
		// the hard shutdown happens only after the flush deadline passed without all shards finishing
		st.Dom("R1", eng.CallNamed("After"), eng.Node("s.hardShutdown()", func(g *eng.Graph, n ast.Node) bool {
			call, ok := n.(*ast.CallExpr)
			return ok && eng.ExprIsField(g.Info, call.Fun, p.Field("storage/remote:shards.hardShutdown"))
		}))
	}
	// ---- R2 the four Append* siblings ----
	for _, s := range []struct{ fn, elem, dropped string }{
		{Q + ".Append", "s", "droppedSamplesTotal"},
		{Q + ".AppendExemplars", "e", "droppedExemplarsTotal"},
		{Q + ".AppendHistograms", "h", "droppedHistogramsTotal"},
		{Q + ".AppendFloatHistograms", "h", "droppedHistogramsTotal"},
	} {
		f := c.Fn(s.fn)
		enq := p.Call("storage/remote:shards.enqueue")
		f.Has("R2", enq, 1)
		// labels are looked up under the series lock, for the ref the sample is enqueued with
		lookup := eng.Node("t.seriesLabels["+s.elem+".Ref]", func(g *eng.Graph, n ast.Node) bool {
			ix, ok := n.(*ast.IndexExpr)
			return ok && eng.ExprIsField(g.Info, ix.X, p.Field(Q+".seriesLabels")) && eng.ExprString(ix.Index) == s.elem+".Ref"
		})
		f.Between("R2", p.MethodOn(Q+".seriesMtx", "Lock"), lookup, p.MethodOn(Q+".seriesMtx", "Unlock"))
		f.Dom("R2", lookup, enq)
		f.Only("R2", enq, "is keyed by the ref whose labels were looked up and carries those labels", func(l eng.Loc) bool {
			call := l.Node.(*ast.CallExpr)
			if eng.ExprString(call.Args[0]) != s.elem+".Ref" {
				return false
			}
			cl, ok := call.Args[1].(*ast.CompositeLit)
			if !ok {
				return false
			}
			for _, el := range cl.Elts {
				if kv, ok := el.(*ast.KeyValueExpr); ok && eng.ExprString(kv.Key) == "seriesLabels" {
					return eng.ExprString(kv.Value) == "lbls"
				}
			}
			return false
		})
		// the series lock is not held while enqueueing (enqueue can block on resharding)
		f.PassesBetween("R2", p.MethodOn(Q+".seriesMtx", "Lock"), p.MethodOn(Q+".seriesMtx", "Unlock"), enq)
		// leaving a sample: `continue` only after a dropped-counter increment, `continue outer` only after a successful enqueue
		f.AstEvery("R2", "block ending in `continue`", func(n ast.Node) bool {
			b, ok := n.(*ast.BlockStmt)
			if !ok || len(b.List) == 0 {
				return false
			}
			br, ok := b.List[len(b.List)-1].(*ast.BranchStmt)
			return ok && br.Tok.String() == "continue" && br.Label == nil
		}, "counts the sample as dropped ("+s.dropped+")", func(n ast.Node) bool {
			t := nodeText(n)
			return strings.Contains(t, "t.metrics."+s.dropped+".WithLabelValues(") && strings.Contains(t, ".Inc()")
		}, 2)
		f.AstEvery("R2", "`continue outer`", func(n ast.Node) bool {
			br, ok := n.(*ast.BranchStmt)
			return ok && br.Tok.String() == "continue" && br.Label != nil
		}, "is the body of `if t.shards.enqueue(…)`", func(n ast.Node) bool {
			ok := false
			ast.Inspect(f.Body, func(x ast.Node) bool {
				if is, isIf := x.(*ast.IfStmt); isIf && len(is.Body.List) == 1 && is.Body.List[0] == n {
					if call, isCall := is.Cond.(*ast.CallExpr); isCall && enq.F(f.Graph, call, eng.Plain) {
						ok = true
					}
				}
				return true
			})
			return ok
		}, 1)
		f.AstEvery("R2", "`break`/`goto`", func(n ast.Node) bool {
			br, ok := n.(*ast.BranchStmt)
			return ok && (br.Tok.String() == "break" || br.Tok.String() == "goto")
		}, "exists (none may)", func(ast.Node) bool { return false }, 0)
		// the only early exit is shutdown
		f.AstEvery("R2", "`return false`", func(n ast.Node) bool {
			rs, ok := n.(*ast.ReturnStmt)
			return ok && len(rs.Results) == 1 && eng.ExprString(rs.Results[0]) == "false"
		}, "is the body of `case <-t.quit:`", func(n ast.Node) bool {
			ok := false
			ast.Inspect(f.Body, func(x ast.Node) bool {
				if cc, isCC := x.(*ast.CommClause); isCC && cc.Comm != nil && len(cc.Body) == 1 && cc.Body[0] == n {
					ok = nodeText(cc.Comm) == "<-t.quit"
				}
				return true
			})
			return ok
		}, 1)
		// a failed enqueue is retried: from the enqueue, the loop's exit `return true` is not reachable without another enqueue… of the same sample:
		// the retry loop is an unconditional `for {}` whose only exits are the two above
		f.AstEvery("R2", "loop containing the enqueue (innermost)", func(n ast.Node) bool {
			fs, ok := n.(*ast.ForStmt)
			return ok && f.Contains(fs.Body, enq)
		}, "is an unconditional `for { … }`", func(n ast.Node) bool {
			fs := n.(*ast.ForStmt)
			return fs.Cond == nil && fs.Init == nil && fs.Post == nil
		}, 1)
	}
	c.SiblingsEqual("R2", Q+".AppendHistograms", Q+".AppendFloatHistograms", sibRenames, nil)
	// ---- R3 shard choice, locks, hand-over of batches ----
	{
		f := c.Fn("storage/remote:shards.enqueue")
		rl := p.MethodOn("storage/remote:shards.mtx", "RLock")
		idx := eng.AssignVar("shard")
		f.Dom("R3", rl, idx)
		f.Has("R3", eng.Deferred(p.MethodOn("storage/remote:shards.mtx", "RUnlock")), 1)
		f.Only("R3", idx, "is uint64(ref) % uint64(len(s.queues))", func(l eng.Loc) bool {
			as, ok := l.Node.(*ast.AssignStmt)
			if !ok || len(as.Rhs) != 1 {
				return false
			}
			be, ok := as.Rhs[0].(*ast.BinaryExpr)
			return ok && be.Op.String() == "%" && eng.ExprString(be.X) == "uint64(ref)" && eng.ExprString(be.Y) == "uint64(len(s.queues))"
		})
		app := p.Call("storage/remote:queue.Append")
		f.Only("R3", app, "appends to s.queues[shard]", func(l eng.Loc) bool {
			s, ok := l.Node.(*ast.CallExpr).Fun.(*ast.SelectorExpr)
			return ok && eng.ExprString(s.X) == "s.queues[shard]"
		})
		f.Has("R3", app, 1)
		// soft shutdown is tested in the same select whose default arm appends
		f.Dom("R3", eng.Node("<-s.softShutdown", func(g *eng.Graph, n ast.Node) bool {
			u, ok := n.(*ast.UnaryExpr)
			return ok && u.Op.String() == "<-" && eng.ExprIsField(g.Info, u.X, p.Field("storage/remote:shards.softShutdown"))
		}), app)
		f.Only("R3", eng.Return("true", func(g *eng.Graph, rs *ast.ReturnStmt) bool { return eng.ExprString(rs.Results[0]) == "true" }), "follows a successful queue.Append", func(l eng.Loc) bool {
			for _, a := range f.Find(app) {
				if f.Graph.Dom(a, l) {
					return true
				}
			}
			return false
		})
		f.GivenBranch("!appended", true).Unreachable("R3", eng.Return("true", func(g *eng.Graph, rs *ast.ReturnStmt) bool { return eng.ExprString(rs.Results[0]) == "true" }))
	}
	c.GuardedBy("R3", Q+".seriesLabels", Q+".seriesMtx", eng.GuardOpts{Min: 6, Unlocked: map[string]string{"storage/remote:NewQueueManager": "constructor"}})
	c.GuardedBy("R3", Q+".droppedSeries", Q+".seriesMtx", eng.GuardOpts{Min: 6, Unlocked: map[string]string{"storage/remote:NewQueueManager": "constructor"}})
	c.GuardedBy("R3", Q+".seriesMetadata", Q+".seriesMtx", eng.GuardOpts{Min: 6, Unlocked: map[string]string{"storage/remote:NewQueueManager": "constructor"}})
	c.GuardedBy("R3", Q+".seriesSegmentIndexes", Q+".seriesSegmentMtx", eng.GuardOpts{Min: 4, Unlocked: map[string]string{"storage/remote:NewQueueManager": "constructor"}})
	c.GuardedBy("R3", "storage/remote:shards.queues", "storage/remote:shards.mtx", eng.GuardOpts{Min: 4})
	c.GuardedBy("R3", "storage/remote:queue.batch", "storage/remote:queue.batchMtx", eng.GuardOpts{Min: 10, Unlocked: map[string]string{"storage/remote:newQueue": "constructor"}})
	c.GuardedBy("R3", "storage/remote:queue.batchPool", "storage/remote:queue.poolMtx", eng.GuardOpts{Min: 5, Unlocked: map[string]string{"storage/remote:newQueue": "constructor"}})
	{
		recvQ := eng.Node("<-q.batchQueue", func(g *eng.Graph, n ast.Node) bool {
			u, ok := n.(*ast.UnaryExpr)
			return ok && u.Op.String() == "<-" && eng.ExprIsField(g.Info, u.X, p.Field("storage/remote:queue.batchQueue"))
		})
		sendQ := eng.Send("q.batchQueue <- q.batch", func(g *eng.Graph, ch ast.Expr) bool {
			return eng.ExprIsField(g.Info, ch, p.Field("storage/remote:queue.batchQueue"))
		})
		// Batch(): the partial batch is handed out only if no full batch is queued before it (per-series order)
		b := c.Fn("storage/remote:queue.Batch")
		b.Dom("R3", recvQ, p.FieldUse("storage/remote:queue.batch"))
		b.AstEvery("R3", "select in queue.Batch", func(n ast.Node) bool { _, ok := n.(*ast.SelectStmt); return ok }, "hands out the partial batch only in its default arm", func(n ast.Node) bool {
			ok := false
			for _, cl := range n.(*ast.SelectStmt).Body.List {
				cc := cl.(*ast.CommClause)
				uses := b.Contains(cc, p.FieldUse("storage/remote:queue.batch"))
				if cc.Comm == nil {
					ok = uses
				} else if uses {
					return false
				}
			}
			return ok
		}, 1)
		// Append(): a full batch is moved to the channel before a new one is started; if the channel is full the datum is taken back
		a := c.Fn("storage/remote:queue.Append")
		a.Dom("R3", sendQ, p.Call("storage/remote:queue.newBatch"))
		a.AstEvery("R3", "select in queue.Append", func(n ast.Node) bool { _, ok := n.(*ast.SelectStmt); return ok }, "returns false from its default arm after removing the datum", func(n ast.Node) bool {
			for _, cl := range n.(*ast.SelectStmt).Body.List {
				cc := cl.(*ast.CommClause)
				if cc.Comm == nil {
					t := nodeText(&ast.BlockStmt{List: cc.Body})
					return strings.Contains(t, "q.batch = q.batch[:len(q.batch)-1]") && strings.Contains(t, "return false")
				}
			}
			return false
		}, 1)
		// tryEnqueueingBatch(): a full channel means "retry"
		t := c.Fn("storage/remote:queue.tryEnqueueingBatch")
		t.Has("R3", sendQ, 1)
		t.AstEvery("R3", "select in tryEnqueueingBatch", func(n ast.Node) bool { _, ok := n.(*ast.SelectStmt); return ok }, "has a default arm that returns true (retry) and arms for the send and for done that do not", func(n ast.Node) bool {
			def, others := false, true
			for _, cl := range n.(*ast.SelectStmt).Body.List {
				cc := cl.(*ast.CommClause)
				last := ""
				if len(cc.Body) > 0 {
					last = nodeText(cc.Body[len(cc.Body)-1])
				}
				if cc.Comm == nil {
					def = last == "return true"
				} else if last == "return true" {
					others = false
				}
			}
			return def && others
		}, 1)
		t.GivenBranch("len(q.batch) == 0", true).Unreachable("R3", sendQ)
		// FlushAndShutdown(): the partial batch is discarded only after the retry loop ended
		fl := c.Fn("storage/remote:queue.FlushAndShutdown")
		discard := p.StoreVal("storage/remote:queue.batch", "nil", eng.IsIdent("nil"))
		fl.Dom("R3", p.Call("storage/remote:queue.tryEnqueueingBatch"), discard)
		fl.Dom("R3", discard, eng.Node("close(q.batchQueue)", func(g *eng.Graph, n ast.Node) bool {
			call, ok := n.(*ast.CallExpr)
			return ok && eng.ExprString(call.Fun) == "close" && len(call.Args) == 1 && eng.ExprIsField(g.Info, call.Args[0], p.Field("storage/remote:queue.batchQueue"))
		}))
		fl.AstEvery("R3", "loop in FlushAndShutdown", func(n ast.Node) bool { _, ok := n.(*ast.ForStmt); return ok }, "is conditioned on tryEnqueueingBatch(done)", func(n ast.Node) bool {
			fs := n.(*ast.ForStmt)
			return fs.Cond != nil && eng.ExprString(fs.Cond) == "q.tryEnqueueingBatch(done)"
		}, 1)
		c.WritersSubset("R3", "storage/remote:queue.batch", 5, "storage/remote:queue.Append", "storage/remote:queue.Batch", "storage/remote:queue.FlushAndShutdown", "storage/remote:newQueue")
		// runShard: every batch taken is sent before it is returned for reuse
		rs := c.Fn("storage/remote:shards.runShard")
		rs.AstEvery("R3", "select arm receiving from batchQueue", func(n ast.Node) bool {
			cc, ok := n.(*ast.CommClause)
			return ok && cc.Comm != nil && strings.Contains(nodeText(cc.Comm), "<-batchQueue")
		}, "sends the batch before returning it for reuse", func(n ast.Node) bool {
			t := nodeText(&ast.BlockStmt{List: n.(*ast.CommClause).Body})
			i, j := strings.Index(t, "sendBatch(batch,"), strings.Index(t, "queue.ReturnForReuse(batch)")
			return i >= 0 && j > i
		}, 1)
		rs.Dom("R3", p.Call("storage/remote:queue.Batch"), eng.CallNamed("sendBatch").WithArg(3, "true", eng.IsIdent("true")))
		rs.Only("R3", eng.CallNamed("sendBatch").WithArg(3, "true", eng.IsIdent("true")), "is guarded only by the batch being non-empty", func(l eng.Loc) bool { return rs.UnderCond(l, "len(batch) > 0") })
	}
	// ---- R3b labels: external labels, then relabeling, then store ----
	{
		f := c.Fn(Q + ".StoreSeries")
		ext := p.Call("storage/remote:processExternalLabels")
		rel := p.Call("model/relabel:ProcessBuilder")
		lbl := eng.Node("t.builder.Labels()", func(g *eng.Graph, n ast.Node) bool {
			call, ok := n.(*ast.CallExpr)
			if !ok {
				return false
			}
			s, ok := call.Fun.(*ast.SelectorExpr)
			return ok && s.Sel.Name == "Labels" && eng.ExprIsField(g.Info, s.X, p.Field(Q+".builder"))
		})
		f.Chain("R3", p.MethodOn(Q+".builder", "Reset"), ext, rel, lbl)
		f.Dom("R3", lbl, p.StoreElem(Q+".seriesLabels"))
		f.GivenBranch("!keep", true).Unreachable("R3", p.StoreElem(Q+".seriesLabels"))
		f.GivenBranch("!keep", true).Reachable("R3", p.StoreElem(Q+".droppedSeries"))
		f.Only("R3", eng.AssignVar("keep"), "is the result of relabel.ProcessBuilder", func(l eng.Loc) bool {
			as, ok := l.Node.(*ast.AssignStmt)
			return ok && f.Contains(as.Rhs[0], rel)
		})
		c.WritersSubset("R3", Q+".seriesLabels", 2, Q+".StoreSeries", Q+".SeriesReset", "storage/remote:NewQueueManager")
		c.WritersSubset("R3", Q+".droppedSeries", 2, Q+".StoreSeries", Q+".SeriesReset", "storage/remote:NewQueueManager")
	}
	// ---- R4 the watcher forwards every sample-bearing record type ----
	{
		f := c.Fn("tsdb/wlog:Watcher.readSegment")
		f.SwitchCovers("R4", "tsdb/record:Type", 1, map[string]string{"MmapMarkers": "WBL only", "Tombstones": "remote write does not forward deletions"})
		for _, m := range []string{"Append", "AppendExemplars", "AppendHistograms", "AppendFloatHistograms", "StoreSeries", "StoreMetadata"} {
			f.Has("R4", eng.CallNamed(m), 1)
		}
	}
	// ---- R5 what is sent is what the receiver decodes: the 2.0 wire types, by field name ----
	{
		const (
			H   = "model/histogram:Histogram"
			FH  = "model/histogram:FloatHistogram"
			W   = "prompb/io/prometheus/write/v2:"
			WH  = W + "Histogram"
			V1  = "prompb:"
			V1H = V1 + "Histogram"
		)
		c.TransfersAll("R5", W+"FromIntHistogram", WH, H, 1, nil)
		c.TransfersAll("R5", W+"FromFloatHistogram", WH, FH, 1, nil)
		c.RoundTripFields("R5", W+"FromIntHistogram", WH+".ToIntHistogram", H, WH, 0, nil)
		c.RoundTripFields("R5", W+"FromFloatHistogram", WH+".ToFloatHistogram", FH, WH, 0, nil)
		c.RoundTripFieldsX("R5", W+"FromIntHistogram", H, WH+".ToFloatHistogram", FH, WH, 1, nil)
		c.RoundTripFields("R5", W+"spansToSpansProto", W+"spansProtoToSpans", "model/histogram:Span", W+"BucketSpan", 0, nil)
		for _, fn := range []string{"FromIntHistogram", "FromFloatHistogram"} {
			f := c.Fn(W + fn)
			fms := f.FieldMaps(WH, H)
			ok := len(fms) == 1 && strings.Join(fms[0].Reads["Timestamp"], ",") == "$timestamp" && strings.Join(fms[0].Reads["StartTimestamp"], ",") == "$st"
			c.Check("R5", W+fn, "the wire timestamp and start timestamp of "+fn+" are its parameters of the same meaning", ok, p.Pos(f.Body.Pos()), "")
		}
		c.InverseSwitches("R5", W+"FromMetadataType", "github.com/prometheus/common/model:MetricType", W+"TimeSeries.ToMetadata", W+"Metadata_MetricType",
			map[string]string{"MetricTypeUnknown": "sent as UNSPECIFIED, decoded as unknown (the default of both switches)", "Metadata_METRIC_TYPE_UNSPECIFIED": "the default of both switches"})
		// 1.0 wire histograms (also used by remote read, checked there as C42.R2) are re-checked here for the write path
		c.RoundTripFields("R5", V1+"FromIntHistogram", V1H+".ToIntHistogram", H, V1H, 0, nil)
		c.RoundTripFields("R5", V1+"FromFloatHistogram", V1H+".ToFloatHistogram", FH, V1H, 0, nil)
	}
	_ = fmt.Sprint
}
