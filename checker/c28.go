package main

import (
	"fmt"
	"go/ast"
	"strings"

	"promverif/eng"
)

func init() {
	register(&Property{
		ID:        "C28",
		Title:     "Selectors implement lookback, staleness and range windows",
		Technique: "linear normal form of every timestamp comparison that decides whether a sample is inside a selector window (instant lookback window, range window and its incremental reuse, subquery start alignment), compared with the left-open / right-closed windows of the statement; branch-arm and clause-order rules for staleness markers; def-use rules for the window bounds handed to the iterators; field-transfer rule for the evaluator a subquery runs in",
		DesignRef: "DESIGN.md §5 C28",
		Level: "Decides the window edges and the staleness filter, not the samples: the instant selector seeks the reference time (evaluation time minus offset), falls back to the previous sample exactly when there is none at or before it, rejects it exactly when t ≤ ref − lookback, and reports nothing for a staleness marker (float or histogram); " +
			"the range selector keeps from the previous step exactly the points with t > mint, appends from the buffer exactly the non-stale points with t greater than the newest retained one (or mint), and adds the sought sample exactly when its t equals maxt and it is not stale, for floats and histograms alike; start-timestamp slices are cut and extended together with the points; " +
			"the matrix selector's window is [eval time − offset − range, eval time − offset]; a subquery runs from the first multiple of its step after (start − offset − range) to (end of the parent's last step − offset) and its child evaluator inherits the lookback delta; the @ modifier's effective offset is original + (eval time − @time) − enclosing subquery offsets.",
		Note:           "Trusted: go/packages, go/types, go/cfg; rule tables in checker/c28.go.",
		Covers:         "promql: evaluator.vectorSelectorSingle, evaluator.matrixIterSlice, evaluator.matrixSelector (window), evaluator.subqueryTimeRange, evaluator.runSubquery, setOffsetForAtModifier, subqueryTimes.",
		NotCover:       "the iterators behind Seek/Buffer (storage.MemoizedSeriesIterator.Seek, BufferedSeriesIterator: runtime state; only the refresh of the memoised previous sample is decided), smoothed/anchored selectors, sample limits, the values.",
		Run:            runC28,
		MinObligations: 35,
	})
}

func runC28(c *eng.Ctx) {
	defer runC28Offset(c)
	p := c.P
	E := "promql:evaluator."
	lin := func(f *eng.Fn, e ast.Expr) string {
		s, ok := eng.LinearCmp(f.Info, e)
		if !ok {
			return "?" + nodeText(e)
		}
		return s
	}
	stmt := func(text string) eng.Matcher {
		return eng.Node(text, func(g *eng.Graph, n ast.Node) bool { return nodeText(n) == text })
	}
	// ---- R1 instant selector ----
	{
		f := c.Fn(E + "vectorSelectorSingle")
		f.Only("R1", eng.AssignVar("refTime"), "is the evaluation time minus the offset", func(l eng.Loc) bool {
			return nodeText(l.Node) == "refTime := ts - durationMilliseconds(offset)"
		})
		f.Only("R1", eng.OnVar("it", "Seek"), "seeks the reference time", func(l eng.Loc) bool {
			a := eng.CallArgsText(l)
			return len(a) == 1 && a[0] == "refTime"
		})
		// fall back to the previous sample exactly when nothing was found at or before refTime
		var fb, rej *ast.IfStmt
		ast.Inspect(f.Body, func(n ast.Node) bool {
			if is, ok := n.(*ast.IfStmt); ok {
				t := nodeText(is.Body)
				if strings.Contains(t, "it.PeekPrev()") && fb == nil {
					fb = is
				}
				if strings.Contains(nodeText(is.Cond), "lookbackDelta") {
					rej = is
				}
			}
			return true
		})
		ok := false
		detail := ""
		if fb != nil {
			if be, isB := fb.Cond.(*ast.BinaryExpr); isB && nodeText(be.X) == "valueType == chunkenc.ValNone" {
				detail = lin(f, be.Y)
				ok = detail == "+1*refTime -1*t < 0"
			}
		}
		c.Check("R1", f.Where(), "the previous sample is consulted exactly when Seek found nothing or a sample after the reference time (t > refTime)", ok, p.Pos(f.Body.Pos()), detail)
		ok, detail = false, ""
		if rej != nil {
			if be, isB := rej.Cond.(*ast.BinaryExpr); isB && nodeText(be.X) == "!ok" {
				detail = lin(f, be.Y)
				ok = detail == "+1*durationMilliseconds(ev.lookbackDelta) -1*refTime +1*t -1 < 0" && nodeText(rej.Body) == "{ return 0, 0, 0, nil, false }"
			}
		}
		c.Check("R1", f.Where(), "the previous sample is rejected exactly when there is none or t ≤ refTime − lookback (left-open lookback window)", ok, p.Pos(f.Body.Pos()), detail)
		retTrue := eng.Return("return of a sample", func(g *eng.Graph, rs *ast.ReturnStmt) bool {
			return len(rs.Results) == 5 && nodeText(rs.Results[4]) == "true"
		})
		f.Has("R1", retTrue, 1)
		f.GivenBranch("value.IsStaleNaN(v) || (h != nil && value.IsStaleNaN(h.Sum))", true).Unreachable("R1", retTrue)
		f.Dom("R1", eng.CondTest("value.IsStaleNaN(v) || (h != nil && value.IsStaleNaN(h.Sum))"), retTrue)
		f.Only("R1", retTrue, "returns the sample that was found", func(l eng.Loc) bool { return nodeText(l.Node) == "return st, t, v, h, true" })
		f.SwitchCovers("R1", "tsdb/chunkenc:ValueType", 1, map[string]string{"ValHistogram": "the memoized iterator converts integer histograms to float histograms"})
	}
	// ---- R2 range selector: incremental window ----
	{
		f := c.Fn(E + "matrixIterSlice")
		for _, k := range [][3]string{{"floats", "mintFloats", "Floats"}, {"histograms", "mintHistograms", "Histograms"}} {
			pts, mintVar, stf := k[0], k[1], k[2]
			// reuse test and drop loop
			var reuse *ast.IfStmt
			var drop *ast.ForStmt
			ast.Inspect(f.Body, func(n ast.Node) bool {
				switch s := n.(type) {
				case *ast.IfStmt:
					if strings.HasPrefix(nodeText(s.Cond), "len("+pts+") > 0 && ") {
						reuse = s
					}
				case *ast.ForStmt:
					if s.Cond != nil && strings.HasPrefix(nodeText(s.Cond), pts+"[drop].T") {
						drop = s
					}
				}
				return true
			})
			ok, detail := false, ""
			if reuse != nil {
				detail = lin(f, reuse.Cond.(*ast.BinaryExpr).Y)
				ok = detail == "-1*"+pts+"[len("+pts+") - 1].T +1*mint < 0"
			}
			c.Check("R2", f.Where(), "points of the previous step are reused exactly when the newest one is after mint ("+pts+")", ok, p.Pos(f.Body.Pos()), detail)
			ok, detail = false, ""
			if drop != nil {
				detail = lin(f, drop.Cond)
				ok = detail == "+1*"+pts+"[drop].T -1*mint -1 < 0" && nodeText(drop.Post) == "drop++" && nodeText(drop.Init) == "drop = 0"
			}
			c.Check("R2", f.Where(), "exactly the points with t ≤ mint are dropped from the front (left-open window, "+pts+")", ok, p.Pos(f.Body.Pos()), detail)
			f.Only("R2", eng.AssignVar(mintVar), "is mint, or the newest retained point after a reuse", func(l eng.Loc) bool {
				t := nodeText(l.Node)
				return t == "mintFloats, mintHistograms := mint, mint" || (t == mintVar+" = "+pts+"[len("+pts+")-1].T" && reuse != nil && l.Node.Pos() > reuse.Body.Pos() && l.Node.End() < reuse.Body.End())
			})
			// the start timestamps are cut wherever the points are cut
			if reuse != nil {
				body, els := nodeText(reuse.Body), nodeText(reuse.Else)
				c.Check("R2", f.Where(), "start timestamps are truncated with the points ("+pts+")",
					strings.Contains(body, "startTimestamps."+stf+" = startTimestamps."+stf+"[:len(startTimestamps."+stf+")-drop]") && strings.Contains(body, "copy(startTimestamps."+stf+", startTimestamps."+stf+"[drop:])") &&
						strings.Contains(els, "startTimestamps."+stf+" = startTimestamps."+stf+"[:0]") && strings.Contains(els, pts+" = "+pts+"[:0]"), p.Pos(reuse.Pos()), "")
			}
		}
		// the buffer loop and the sought sample, per value type
		type armInfo struct{ loopArm, soughtArm *ast.CaseClause }
		var loopSw, soughtSw *ast.SwitchStmt
		ast.Inspect(f.Body, func(n ast.Node) bool {
			if sw, ok := n.(*ast.SwitchStmt); ok && sw.Tag != nil {
				switch nodeText(sw.Tag) {
				case "buf.Next()":
					loopSw = sw
				case "soughtValueType":
					soughtSw = sw
				}
			}
			return true
		})
		clause := func(sw *ast.SwitchStmt, name string) *ast.CaseClause {
			if sw == nil {
				return nil
			}
			for _, cl := range sw.Body.List {
				cc := cl.(*ast.CaseClause)
				for _, e := range cc.List {
					if nodeText(e) == "chunkenc."+name {
						return cc
					}
				}
			}
			return nil
		}
		innerIfs := func(cc *ast.CaseClause) []*ast.IfStmt {
			var out []*ast.IfStmt
			if cc == nil {
				return nil
			}
			for _, st := range cc.Body {
				if is, ok := st.(*ast.IfStmt); ok {
					out = append(out, is)
				}
			}
			return out
		}
		// floats in the loop: stale test first (continue), then t > mintFloats guards the append
		{
			cc := clause(loopSw, "ValFloat")
			ifs := innerIfs(cc)
			ok := len(ifs) == 2 && nodeText(ifs[0].Cond) == "value.IsStaleNaN(f)" && nodeText(ifs[0].Body) == "{ continue loop }" &&
				lin(f, ifs[1].Cond) == "+1*mintFloats -1*t < 0" && strings.Contains(nodeText(ifs[1].Body), "floats = append(floats, FPoint{T: t, F: f})") &&
				strings.Contains(nodeText(ifs[1].Body), "startTimestamps.Floats = append(startTimestamps.Floats, buf.AtST())")
			c.Check("R2", f.Where(), "a buffered float is appended exactly when it is not a staleness marker and t > the newest retained point, together with its start timestamp", ok, p.Pos(f.Body.Pos()), "")
			if cc != nil {
				c.Check("R2", f.Where(), "the buffered float appended is the one read from the buffer", strings.HasPrefix(nodeText(cc.Body[0]), "t, f := buf.At()"), p.Pos(cc.Pos()), "")
			}
		}
		{
			cc := clause(loopSw, "ValFloatHistogram")
			ifs := innerIfs(cc)
			ok := len(ifs) == 1 && lin(f, ifs[0].Cond) == "+1*mintHistograms -1*t < 0"
			if ok {
				b := nodeText(ifs[0].Body)
				i1 := strings.Index(b, "histograms[n].T, histograms[n].H = buf.AtFloatHistogram(histograms[n].H)")
				i2 := strings.Index(b, "if value.IsStaleNaN(histograms[n].H.Sum) { histograms = histograms[:n] continue loop }")
				i3 := strings.Index(b, "ev.currentSamples += histograms[n].size()")
				i4 := strings.Index(b, "startTimestamps.Histograms = append(startTimestamps.Histograms, buf.AtST())")
				ok = i1 >= 0 && i1 < i2 && i2 < i3 && i3 < i4
			}
			c.Check("R2", f.Where(), "a buffered histogram is taken exactly when t > the newest retained point, and un-taken again when it is a staleness marker, before it is counted or gets a start timestamp", ok, p.Pos(f.Body.Pos()), "")
			c.Check("R2", f.Where(), "integer and float histograms share the arm", cc != nil && len(cc.List) == 2, p.Pos(f.Body.Pos()), "")
		}
		// sought sample
		{
			cc := clause(soughtSw, "ValFloat")
			ifs := innerIfs(cc)
			ok := false
			detail := ""
			if len(ifs) == 1 {
				if be, isB := ifs[0].Cond.(*ast.BinaryExpr); isB {
					detail = lin(f, be.X) + " && " + nodeText(be.Y)
					ok = lin(f, be.X) == "+1*maxt -1*t == 0" && nodeText(be.Y) == "!value.IsStaleNaN(f)" && strings.Contains(nodeText(ifs[0].Body), "floats = append(floats, FPoint{T: t, F: f})") &&
						strings.Contains(nodeText(ifs[0].Body), "startTimestamps.Floats = append(startTimestamps.Floats, it.AtST())")
				}
			}
			c.Check("R2", f.Where(), "the sought float is added exactly when its timestamp is maxt and it is not a staleness marker (right-closed window)", ok, p.Pos(f.Body.Pos()), detail)
		}
		{
			cc := clause(soughtSw, "ValFloatHistogram")
			ok := false
			if cc != nil && len(cc.Body) > 0 {
				first := nodeText(cc.Body[0])
				b := ""
				for _, st := range cc.Body {
					b += nodeText(st) + " "
				}
				i1 := strings.Index(b, "histograms[n].T, histograms[n].H = it.AtFloatHistogram(histograms[n].H)")
				i2 := strings.Index(b, "if value.IsStaleNaN(histograms[n].H.Sum) { histograms = histograms[:n] break }")
				i3 := strings.Index(b, "ev.currentSamples += histograms[n].size()")
				ok = first == "if it.AtT() != maxt { break }" && i1 >= 0 && i1 < i2 && i2 < i3
			}
			c.Check("R2", f.Where(), "the sought histogram is added exactly when its timestamp is maxt, and removed again when it is a staleness marker", ok, p.Pos(f.Body.Pos()), "")
		}
		f.Only("R2", eng.OnVar("it", "Seek"), "seeks the end of the window", func(l eng.Loc) bool { a := eng.CallArgsText(l); return len(a) == 1 && a[0] == "maxt" })
		f.Only("R2", eng.Return("early return", func(g *eng.Graph, rs *ast.ReturnStmt) bool { return len(f.CondsOf(rs)) > 0 }), "is taken only for the empty window mint == maxt, after the old points were cut", func(l eng.Loc) bool {
			cs := f.CondsOf(l.Node)
			return len(cs) == 1 && cs[0] == "mint == maxt=T"
		})
	}
	// ---- R5 the memoised previous sample: everything PeekPrev hands out is refreshed whenever a sample is memoised ----
	{
		M := "storage:MemoizedSeriesIterator"
		pk := c.Fn(M + ".PeekPrev")
		fields := map[string]bool{}
		ast.Inspect(pk.Body, func(n ast.Node) bool {
			rs, ok := n.(*ast.ReturnStmt)
			if !ok || len(rs.Results) != 5 || nodeText(rs.Results[4]) != "true" {
				return true
			}
			for _, r := range rs.Results[:4] {
				if se, ok := r.(*ast.SelectorExpr); ok && nodeText(se.X) == "b" {
					fields[se.Sel.Name] = true
				}
			}
			return true
		})
		names := eng.SortedKeys(fields)
		c.Check("R5", pk.Where(), "PeekPrev returns four memoised fields", len(names) == 4, p.Pos(pk.Body.Pos()), strings.Join(names, ","))
		nx := c.Fn(M + ".Next")
		adv := stmt("b.valueType = b.it.Next()")
		nx.Has("R5", adv, 1)
		// per arm of the (exhaustive, see below) switch: every memoised field is stored, in the arm or after the switch
		sws := nx.EnumSwitches("tsdb/chunkenc:ValueType")
		if len(sws) != 1 {
			c.Fail("R5", nx.Where(), "Next memoises the sample it leaves in a switch over its type", p.Pos(nx.Body.Pos()), "switch not found")
		} else {
			after := ""
			seen := false
			for _, st := range nx.Body.List {
				if st == ast.Stmt(sws[0].Stmt) {
					seen = true
					continue
				}
				if seen {
					if nodeText(st) == "b.valueType = b.it.Next()" {
						break
					}
					after += nodeText(st) + " ; "
				}
			}
			for name, cl := range sws[0].Clauses {
				if name == "ValNone" {
					continue
				}
				body := after
				for _, st := range cl.Body {
					body += nodeText(st) + " ; "
				}
				var missing []string
				for _, fld := range names {
					if !strings.Contains(body, "b."+fld+" = ") && !strings.Contains(body, "b."+fld+", ") && !strings.Contains(body, ", b."+fld+" = ") {
						missing = append(missing, fld)
					}
				}
				c.Check("R5", nx.Where(), "leaving a "+name+" sample refreshes every memoised field", len(missing) == 0, p.Pos(cl.Pos()), "not stored: "+strings.Join(missing, ", "))
			}
		}
		nx.Only("R5", p.Store(M+".prevValue"), "is the float just left, or 0 for a histogram", func(l eng.Loc) bool {
			t := nodeText(l.Node)
			return t == "b.prevTime, b.prevValue = b.it.At()" || t == "b.prevValue = 0"
		})
		nx.Only("R5", p.Store(M+".prevFloatHistogram"), "is the histogram just left, or nil for a float", func(l eng.Loc) bool {
			t := nodeText(l.Node)
			return t == "b.prevFloatHistogram = nil" || t == "b.prevTime, b.prevFloatHistogram = b.it.AtFloatHistogram(nil)"
		})
		nx.SwitchCovers("R5", "tsdb/chunkenc:ValueType", 1, nil)
	}
	// ---- R3 the matrix selector's window ----
	{
		f := c.Fn(E + "matrixSelector")
		want := map[string]string{
			"offset": "durationMilliseconds(vs.Offset)",
			"maxt":   "ev.startTimestamp - offset",
			"mint":   "maxt - durationMilliseconds(node.Range)",
		}
		got := map[string]string{}
		ast.Inspect(f.Body, func(n ast.Node) bool {
			if vs, ok := n.(*ast.ValueSpec); ok && len(vs.Names) == 1 && len(vs.Values) == 1 {
				if _, w := want[vs.Names[0].Name]; w {
					if _, seen := got[vs.Names[0].Name]; !seen {
						got[vs.Names[0].Name] = nodeText(vs.Values[0])
					}
				}
			}
			return true
		})
		c.Check("R3", f.Where(), "the range window is [eval − offset − range, eval − offset]", eng.KV(got) == eng.KV(want), p.Pos(f.Body.Pos()), eng.KV(got))
	}
	// ---- R4 subqueries and @ ----
	{
		f := c.Fn(E + "subqueryTimeRange")
		f.Only("R4", eng.AssignVar("end"), "is the parent's last step minus the offset", func(l eng.Loc) bool { return nodeText(l.Node) == "end = parentEnd - offsetMillis" })
		f.Only("R4", eng.AssignVar("parentEnd"), "is the end time, or the last multiple of the parent's step inside [start, end]", func(l eng.Loc) bool {
			t := nodeText(l.Node)
			return t == "parentEnd := ev.endTimestamp" || (t == "parentEnd = ev.startTimestamp + ((ev.endTimestamp-ev.startTimestamp)/ev.interval)*ev.interval" && f.UnderCond(l, "ev.interval > 0"))
		})
		f.Only("R4", eng.AssignVar("start"), "is the first multiple of the step strictly after (start − offset − range)", func(l eng.Loc) bool {
			t := nodeText(l.Node)
			if t == "start = interval * ((ev.startTimestamp - offsetMillis - rangeMillis) / interval)" {
				return true
			}
			if t != "start += interval" {
				return false
			}
			gs := f.GuardsOf(l)
			return len(gs) == 1 && gs[0] == "-1*ev.startTimestamp +1*offsetMillis +1*rangeMillis +1*start -1 < 0"
		})
		f.Has("R4", stmt("start += interval"), 1)
		f.Only("R4", eng.AssignVar("interval"), "is the subquery's step or the default for its range", func(l eng.Loc) bool {
			t := nodeText(l.Node)
			return (t == "interval = durationMilliseconds(e.Step)" && f.UnderCond(l, "e.Step != 0")) || (t == "interval = ev.noStepSubqueryIntervalFn(rangeMillis)" && f.UnderCondFalse(l, "e.Step != 0"))
		})
		rs := c.Fn(E + "runSubquery")
		ls := rs.LitTexts("promql:evaluator")
		ok := len(ls) == 1 && ls[0]["startTimestamp"] == "subqStart" && ls[0]["endTimestamp"] == "subqEnd" && ls[0]["interval"] == "subqInterval" && ls[0]["lookbackDelta"] == "ev.lookbackDelta" && ls[0]["querier"] == "ev.querier"
		c.Check("R4", rs.Where(), "the subquery's evaluator runs over the subquery's time range with the parent's lookback delta and querier", ok, p.Pos(rs.Body.Pos()), "")
		rs.Only("R4", eng.AssignVar("subqStart"), "comes from subqueryTimeRange", func(l eng.Loc) bool {
			return nodeText(l.Node) == "subqStart, subqEnd, subqInterval := ev.subqueryTimeRange(e)"
		})
		rs.Only("R4", p.Call("promql:setOffsetForAtModifier"), "re-bases @ offsets on the subquery's start", func(l eng.Loc) bool {
			a := eng.CallArgsText(l)
			return len(a) == 2 && a[0] == "subqStart" && a[1] == "e.Expr"
		})
		so := c.Fn("promql:setOffsetForAtModifier")
		g := so.Closure("getOffset", eng.AssignVar("offsetForTs"))
		g.Only("R4", eng.Return("return", func(gr *eng.Graph, r *ast.ReturnStmt) bool { return true }), "returns the original offset without @, else original + (eval − @time) − enclosing subquery offsets", func(l eng.Loc) bool {
			t := nodeText(l.Node)
			return (t == "return originalOffset" && g.UnderCond(l, "ts == nil")) || t == "return originalOffset + offsetDiff"
		})
		g.Only("R4", eng.AssignVar("offsetForTs"), "is eval time − @time", func(l eng.Loc) bool {
			return nodeText(l.Node) == "offsetForTs := time.Duration(evalTime-*ts) * time.Millisecond"
		})
		g.Only("R4", eng.AssignVar("offsetDiff"), "subtracts the enclosing subqueries' offset", func(l eng.Loc) bool { return nodeText(l.Node) == "offsetDiff := offsetForTs - subqOffset" })
		st := c.Fn("promql:subqueryTimes")
		st.Only("R4", eng.AssignVar("subqOffset"), "accumulates the enclosing subqueries' offsets, restarting at one with @", func(l eng.Loc) bool {
			if _, ok := l.Node.(*ast.AssignStmt); !ok {
				return true
			}
			t := nodeText(l.Node)
			return t == "subqOffset += n.OriginalOffset" || (t == "subqOffset = n.OriginalOffset" && st.UnderCond(l, "n.Timestamp != nil"))
		})
		_ = fmt.Sprint
	}
}
