package main

import (
	"go/ast"
	"strings"

	"promverif/eng"
)

// C22.R6 (added for seed C22-c) and R7 (finding F62): a series reference is never issued twice.
// R6: the WAL scan of the fast start-up never returns less than the reference recorded in the state file.
// R7: m-mapped chunks are attached to series by reference, so every reference found in the head-chunk files has to be
// at or below lastSeriesID — the series may have been evicted from the head and from the chunk snapshot while its chunks
// are still on disk.
func runC22Ref(c *eng.Ctx) {
	p := c.P
	f := c.Fn("tsdb:Head.findLastSeriesID")
	fallback, scanned := 0, 0
	okScan := true
	ast.Inspect(f.Body, func(x ast.Node) bool {
		rs, ok := x.(*ast.ReturnStmt)
		if !ok || len(rs.Results) != 2 || nodeText(rs.Results[1]) != "nil" {
			return true
		}
		switch t := nodeText(rs.Results[0]); {
		case t == "state.LastSeriesID":
			fallback++
		case strings.Contains(t, "highestID"):
			scanned++
			under := false
			for _, cd := range f.CondsOf(rs) {
				under = under || cd == "found=T"
			}
			okScan = okScan && under
		default:
			okScan = false
		}
		return true
	})
	c.Check("R6", f.Where(), "a reference found in the scanned segments is returned only if a series record was found; otherwise the state file's reference is", fallback >= 1 && scanned >= 1 && okScan, p.Pos(f.Body.Pos()),
		"without the fallback an unclean restart after a window without series records forgets the evicted series' references and issues them again")
	lm := c.Fn("tsdb:Head.loadMmappedChunks")
	raised := false
	ast.Inspect(lm.Body, func(x ast.Node) bool {
		is, ok := x.(*ast.IfStmt)
		if ok && strings.Contains(nodeText(is.Cond), "h.lastSeriesID.Load() <") && strings.Contains(nodeText(is.Body), "h.lastSeriesID.Store(") && strings.Contains(nodeText(is), "seriesRef") {
			raised = true
		}
		return true
	})
	c.Check("R7", lm.Where(), "every series reference found in the head-chunk files raises lastSeriesID (chunks are attached by reference)", raised, p.Pos(lm.Body.Pos()),
		"a series evicted by CompactSelectedSeries/CompactStaleHead leaves its m-mapped chunks behind; after a restart from the chunk snapshot its reference is issued again and the old chunks are served under the new series' labels")
}
