// promverif decides structural necessary conditions of the properties in
// /verif/properties.jsonl from the type-checked source of /repo.  It never runs code of /repo.
package main

import (
	"encoding/json"
	"fmt"
	"os"
	"path/filepath"
	"runtime/debug"
	"sort"
	"strings"
	"time"

	"promverif/eng"
)

// Property is the registration of one claimed property.
type Property struct {
	ID        string
	Title     string
	Technique string   // MANIFEST "technique"
	Level     string   // level_claimed.text
	Note      string   // level_note
	DesignRef string   // DESIGN.md section
	Covers    string   // what the structural clauses decide (goes into evidence explanation)
	NotCover  string   // what they do not decide
	Tags      []string // additional build-tag variants loaded in the thorough tier ("" = default only)
	Run       func(c *eng.Ctx)
	// MinObligations: number of rule instances confirmed by reading; fewer means a rule matched
	// less than it should (vacuity guard).
	MinObligations int
}

var registry = map[string]*Property{}

func register(p *Property) { registry[p.ID] = p }

const verifDir = "/verif"

type KnownFinding struct {
	Property string `json:"property"`
	Key      string `json:"key"` // rule|where|what
	What     string `json:"what"`
	Status   string `json:"status"` // "open" or "fixed: <commit>"
}

func loadKnown() []KnownFinding {
	var kf struct {
		Findings []KnownFinding `json:"findings"`
	}
	b, err := os.ReadFile(filepath.Join(verifDir, "known_findings.json"))
	if err != nil {
		return nil
	}
	if err := json.Unmarshal(b, &kf); err != nil {
		fmt.Fprintln(os.Stderr, "known_findings.json:", err)
		os.Exit(2)
	}
	return kf.Findings
}

func usage() {
	fmt.Fprintln(os.Stderr, "usage: promverif check <ID> <quick|thorough> [-repo DIR] [-overlay FILE=REPLACEMENT]... [-no-evidence]\n       promverif list | manifest")
	os.Exit(2)
}

func main() {
	if len(os.Args) < 2 {
		usage()
	}
	switch os.Args[1] {
	case "list":
		for _, id := range eng.SortedKeys(registry) {
			fmt.Println(id, registry[id].Title)
		}
	case "manifest":
		writeManifest()
	case "check":
		if len(os.Args) < 4 {
			usage()
		}
		os.Exit(runCheck(os.Args[2], os.Args[3], os.Args[4:]))
	case "warm":
		for _, tags := range []string{"", "slicelabels", "dedupelabels"} {
			t0 := time.Now()
			p, err := eng.Load(eng.LoadOpts{Tags: tags})
			if err != nil {
				fmt.Println("warm:", err)
				os.Exit(2)
			}
			fmt.Printf("warm: tags=%q %d packages in %.1fs\n", tags, len(p.Pkgs), time.Since(t0).Seconds())
		}
	case "selftest":
		os.Exit(runSelftest(os.Args[2:]))
	case "multi":
		os.Exit(runMulti(os.Args[2:]))
	case "sibdelta": // promverif sibdelta <aRef> <bRef> [hist]
		p, err := eng.Load(eng.LoadOpts{})
		if err != nil {
			fmt.Println(err)
			os.Exit(2)
		}
		var ren [][2]string
		if len(os.Args) > 4 && os.Args[4] == "hist" {
			ren = histRenames
		}
		fmt.Println(eng.NewCtx(p, "x", "quick").SiblingDelta(os.Args[2], os.Args[3], ren))
	case "scanresets": // exploratory: reset-like methods that leave fields of their receiver unassigned
		p, err := eng.Load(eng.LoadOpts{})
		if err != nil {
			fmt.Println(err)
			os.Exit(2)
		}
		scanResets(p)
	case "scanwrappers":
		p, err := eng.Load(eng.LoadOpts{})
		if err != nil {
			fmt.Println(err)
			os.Exit(2)
		}
		scanWrappers(p)
	case "scanflags":
		p, err := eng.Load(eng.LoadOpts{})
		if err != nil {
			fmt.Println(err)
			os.Exit(2)
		}
		scanFlags(p)
	case "scanvisits":
		p, err := eng.Load(eng.LoadOpts{})
		if err != nil {
			fmt.Println(err)
			os.Exit(2)
		}
		scanVisits(p)
	case "scansums": // exploratory: prefix-sum accumulators shared by several loops
		p, err := eng.Load(eng.LoadOpts{})
		if err != nil {
			fmt.Println(err)
			os.Exit(2)
		}
		for _, fs := range p.AllFuncs() {
			if fs.Decl.Body == nil {
				continue
			}
			for _, ps := range eng.PrefixSums(fs.Pkg.TypesInfo, fs.Decl.Body) {
				fmt.Printf("%s %s var %s loops=%d resets=%v\n", p.Pos(fs.Decl.Pos()), eng.FuncName(fs.Obj), ps.Var.Name(), len(ps.Loops), ps.ResetBefore)
			}
		}
	case "scanlocks": // exploratory: functions that may return with a mutex field still locked
		p, err := eng.Load(eng.LoadOpts{})
		if err != nil {
			fmt.Println(err)
			os.Exit(2)
		}
		for _, l := range p.LockLeaks() {
			fmt.Println(l)
		}
	case "cfg":
		p, err := eng.Load(eng.LoadOpts{})
		if err != nil {
			fmt.Println(err)
			os.Exit(2)
		}
		g := p.GraphOf(os.Args[2])
		fmt.Println(g.CFG.Format(p.Fset))
	default:
		usage()
	}
}

type runOpts struct {
	repo       string
	overlay    map[string][]byte
	noEvidence bool
	quiet      bool
}

func parseOpts(args []string) runOpts {
	o := runOpts{repo: "/repo", overlay: map[string][]byte{}}
	for i := 0; i < len(args); i++ {
		switch args[i] {
		case "-repo":
			i++
			o.repo = args[i]
		case "-overlay":
			i++
			kv := strings.SplitN(args[i], "=", 2)
			b, err := os.ReadFile(kv[1])
			if err != nil {
				fmt.Fprintln(os.Stderr, err)
				os.Exit(2)
			}
			o.overlay[kv[0]] = b
		case "-no-evidence":
			o.noEvidence = true
		case "-quiet":
			o.quiet = true
		default:
			usage()
		}
	}
	return o
}

func runCheck(id, tier string, args []string) (code int) {
	t0 := time.Now()
	prop := registry[id]
	if prop == nil {
		fmt.Fprintf(os.Stderr, "unknown or unclaimed property %q\n", id)
		return 2
	}
	if tier != "quick" && tier != "thorough" {
		usage()
	}
	o := parseOpts(args)
	undecidedExit := func(reason string) int {
		fmt.Printf("UNDECIDED property=%s reason=%s\n", id, reason)
		return 2
	}
	variants := []string{""}
	if tier == "thorough" {
		variants = append(variants, prop.Tags...)
	}
	var all []eng.Obligation
	fns := map[string]bool{}
	callSites, pkgs := 0, 0
	for _, tags := range variants {
		p, err := eng.Load(eng.LoadOpts{RepoDir: o.repo, Tags: tags, Overlay: o.overlay, AllowUnusedOverlay: true})
		if err != nil {
			return undecidedExit("load failed: " + strings.ReplaceAll(err.Error(), "\n", " "))
		}
		c := eng.NewCtx(p, id, tier)
		var und *eng.Undecided
		func() {
			defer func() {
				if r := recover(); r != nil {
					if u, ok := r.(eng.Undecided); ok {
						und = &u
						return
					}
					und = &eng.Undecided{Reason: fmt.Sprintf("analysis panic: %v\n%s", r, debug.Stack())}
				}
			}()
			prop.Run(c)
		}()
		if und != nil {
			return undecidedExit(und.Reason)
		}
		for _, ob := range c.Obls {
			if tags != "" {
				ob.Where += " [tags=" + tags + "]"
			}
			all = append(all, ob)
		}
		for f := range c.FnsAnalysed {
			fns[f] = true
		}
		callSites += c.CallSites
		pkgs += len(p.Pkgs)
	}
	// vacuity guard
	base := 0
	for _, ob := range all {
		if !strings.Contains(ob.Where, "[tags=") {
			base++
		}
	}
	anyFail := false
	for _, ob := range all {
		anyFail = anyFail || !ob.OK
	}
	if base < prop.MinObligations && !anyFail {
		// too few instances and nothing reported: a rule lost its subject.  (With a failed obligation the run goes
		// on: a rule that gave up on a changed construct has named it, and that report is the verdict.)
		return undecidedExit(fmt.Sprintf("only %d obligations generated, %d confirmed by reading: a rule matches fewer instances than it should", base, prop.MinObligations))
	}
	known := loadKnown()
	var failed, knownHit []eng.Obligation
	for _, ob := range all {
		if ob.OK {
			continue
		}
		isKnown := false
		for _, k := range known {
			if k.Property == id && k.Status == "open" && k.Key == ob.Key() {
				isKnown = true
				fmt.Printf("KNOWN-FINDING: property=%s %s — %s\n", id, k.Key, k.What)
			}
		}
		if isKnown {
			knownHit = append(knownHit, ob)
		} else {
			failed = append(failed, ob)
		}
	}
	ruleCounts := map[string]int{}
	for _, ob := range all {
		ruleCounts[ob.Rule]++
	}
	if !o.quiet {
		fmt.Printf("property %s (%s): tier=%s packages=%d functions=%d obligations=%d failed=%d known=%d wall=%.1fs\n",
			id, prop.Title, tier, pkgs, len(fns), len(all), len(failed), len(knownHit), time.Since(t0).Seconds())
		for _, r := range eng.SortedKeys(ruleCounts) {
			fmt.Printf("  %-8s %d obligation(s)\n", r, ruleCounts[r])
		}
	}
	// thorough tier: checker self-test — every registered mutant of this property (a single-fragment
	// change of /repo applied through a source overlay, nothing is written) must make its rule fire.
	var mres []MutantResult
	if tier == "thorough" && len(o.overlay) == 0 {
		mres = runMutants(id, o.repo)
		det, missed, na := 0, 0, 0
		for _, r := range mres {
			switch r.Status {
			case "detected":
				det++
			case "not-applicable":
				na++
			default:
				missed++
				fmt.Printf("SELFTEST %s %s expect=%s %s\n", r.Status, r.ID, r.Expect, r.Detail)
			}
		}
		if !o.quiet {
			fmt.Printf("  self-test: %d mutant(s): %d detected, %d not applicable to this tree, %d missed\n", len(mres), det, na, missed)
		}
	}
	if !o.noEvidence {
		writeEvidence(prop, tier, all, failed, knownHit, fns, callSites, pkgs, ruleCounts, time.Since(t0).Seconds(), mres)
	}
	if len(failed) > 0 {
		sort.SliceStable(failed, func(i, j int) bool { return len(failed[i].Detail) < len(failed[j].Detail) })
		for _, ob := range failed {
			fmt.Printf("FAIL %s at %s\n     in   %s\n     rule %s\n     why  %s\n", ob.Rule, ob.Pos, ob.Where, ob.What, ob.Detail)
		}
		replay := filepath.Join(verifDir, "evidence", id+".violation.json")
		if !o.noEvidence {
			b, _ := json.MarshalIndent(map[string]any{"property_id": id, "tier": tier, "violations": failed,
				"replay": fmt.Sprintf("cd /verif && bin/check %s %s", id, tier)}, "", " ")
			_ = os.WriteFile(replay, b, 0o644)
		}
		fmt.Printf("VIOLATION property=%s replay=%s\n", id, replay)
		return 1
	}
	return 0
}

func writeEvidence(prop *Property, tier string, all, failed, knownHit []eng.Obligation, fns map[string]bool, callSites, pkgs int, ruleCounts map[string]int, wall float64, mres []MutantResult) {
	discharged := 0
	var samples []any
	perRuleSample := map[string]int{}
	distinct := map[string]bool{}
	for _, ob := range all {
		if ob.OK {
			discharged++
		}
		distinct[ob.Key()] = true
		if perRuleSample[ob.Rule] < 2 {
			perRuleSample[ob.Rule]++
			st := "holds"
			if !ob.OK {
				st = "FAILS at " + ob.Pos
			}
			samples = append(samples, fmt.Sprintf("%s in %s: %s — %s (%s)", ob.Rule, ob.Where, ob.What, st, ob.Detail))
		}
	}
	var rules []string
	for _, r := range eng.SortedKeys(ruleCounts) {
		rules = append(rules, fmt.Sprintf("%s:%d", r, ruleCounts[r]))
	}
	seed := 0
	fmt.Sscan(os.Getenv("VERIF_SEED"), &seed)
	ev := map[string]any{
		"property_id": prop.ID,
		"tier":        tier,
		"seed":        seed,
		"level":       "other",
		"coverage": map[string]any{
			"explanation": "Static analysis of the type-checked source of /repo (go/packages + go/cfg dominance / path search, module-wide call and field-write index" +
				", tables over go/types constants). Decided clauses: " + prop.Covers + " NOT decided: " + prop.NotCover,
			"obligations":                  len(all),
			"discharged":                   discharged,
			"evaluations":                  len(all),
			"distinct_nontrivial":          len(distinct),
			"rule":                         "one obligation per rule instance (rule + resolved function/field/constant + clause); distinct = distinct keys; every obligation inspects resolved constructs of the current tree, none is trivial by construction (a rule that finds no instance fails)",
			"rules":                        rules,
			"functions_analysed":           eng.SortedKeys(fns),
			"n_functions":                  len(fns),
			"call_or_write_sites_examined": callSites,
			"packages_loaded":              pkgs,
			"known_findings_hit":           len(knownHit),
			"samples":                      samples,
			"selftest_mutants":             mutantSummary(mres),
			"exhaustive":                   false,
			"checker_cmd":                  fmt.Sprintf("bin/check %s %s", prop.ID, tier),
		},
		"assumptions": []string{
			"go/cfg has no edges for panics: a path leaving a function by panic is not a success return",
			"a deferred call runs at every exit of the function that registered it",
			"reflection, unsafe, cgo and go:linkname are not followed",
			"call-graph rules are restricted to functions of the main module; interface calls are resolved by type (VTA / implements)",
			"the rule instances (which function is the durable step, which lock guards which field) were confirmed by reading and are frozen in checker/*.go",
		},
		"wall_s":     wall,
		"violations": len(failed),
	}
	b, _ := json.MarshalIndent(ev, "", " ")
	_ = os.MkdirAll(filepath.Join(verifDir, "evidence"), 0o755)
	if err := os.WriteFile(filepath.Join(verifDir, "evidence", prop.ID+".json"), b, 0o644); err != nil {
		fmt.Fprintln(os.Stderr, "evidence:", err)
	}
	if len(failed) == 0 {
		_ = os.Remove(filepath.Join(verifDir, "evidence", prop.ID+".violation.json"))
	}
}

// runMulti loads the tree once and runs the rules of several properties against it (no evidence
// written).  Used by bin/try-seed and the seed matrix; it is not a registered check.
func runMulti(args []string) int {
	repo := "/repo"
	var ids []string
	for i := 0; i < len(args); i++ {
		if args[i] == "-repo" {
			i++
			repo = args[i]
			continue
		}
		ids = append(ids, args[i])
	}
	if len(ids) == 0 || ids[0] == "all" {
		ids = eng.SortedKeys(registry)
	}
	p, err := eng.Load(eng.LoadOpts{RepoDir: repo})
	if err != nil {
		fmt.Println("UNDECIDED load failed:", strings.ReplaceAll(err.Error(), "\n", " "))
		return 2
	}
	known := loadKnown()
	rc := 0
	for _, id := range ids {
		prop := registry[id]
		if prop == nil {
			fmt.Printf("== %s unknown\n", id)
			continue
		}
		c := eng.NewCtx(p, id, "quick")
		var und string
		func() {
			defer func() {
				if r := recover(); r != nil {
					if u, ok := r.(eng.Undecided); ok {
						und = u.Reason
						return
					}
					und = fmt.Sprintf("analysis panic: %v", r)
				}
			}()
			prop.Run(c)
		}()
		if und != "" {
			fmt.Printf("== %s exit=2 UNDECIDED %s\n", id, und)
			rc = 2
			continue
		}
		var failed []eng.Obligation
		for _, ob := range c.Obls {
			if ob.OK {
				continue
			}
			isKnown := false
			for _, k := range known {
				if k.Property == id && k.Status == "open" && k.Key == ob.Key() {
					isKnown = true
				}
			}
			if !isKnown {
				failed = append(failed, ob)
			}
		}
		if len(c.Obls) < prop.MinObligations && len(failed) == 0 {
			fmt.Printf("== %s exit=2 UNDECIDED only %d obligations (< %d)\n", id, len(c.Obls), prop.MinObligations)
			rc = 2
			continue
		}
		code := 0
		if len(failed) > 0 {
			code = 1
			if rc == 0 {
				rc = 1
			}
		}
		fmt.Printf("== %s exit=%d obligations=%d failed=%d\n", id, code, len(c.Obls), len(failed))
		for _, ob := range failed {
			fmt.Printf("FAIL %s at %s in %s: %s — %s\n", ob.Rule, ob.Pos, ob.Where, ob.What, ob.Detail)
		}
	}
	return rc
}

func mutantSummary(mres []MutantResult) map[string]any {
	if mres == nil {
		return map[string]any{"run": false, "note": "the mutant self-test runs in the thorough tier"}
	}
	det, na := 0, 0
	var missed []string
	for _, r := range mres {
		switch r.Status {
		case "detected":
			det++
		case "not-applicable":
			na++
		default:
			missed = append(missed, r.ID+":"+r.Status)
		}
	}
	return map[string]any{"run": true, "total": len(mres), "detected": det, "not_applicable": na, "missed": missed}
}
