package main

import (
	"fmt"
	"go/ast"
	"go/constant"
	"go/types"
	"regexp"
	"sort"
	"strconv"
	"strings"

	"promverif/eng"
)

// C33.R7: the implementation of every PromQL function indexes its arguments within what the parser's signature
// table guarantees.  The parser admits a call only with len(ArgTypes) arguments (Variadic == 0), or with at
// least len(ArgTypes)-1 (Variadic != 0); the evaluator hands the implementation one Vector per argument
// (vectorVals), the argument expressions (args), and a one-series Matrix only if some argument is a range vector.
// A Vector for a scalar-typed argument has exactly one sample; for an instant-vector argument it may be empty.
type c33Sig struct {
	argTypes []string
	variadic int
}

func (s c33Sig) mandatory() int {
	if s.variadic != 0 {
		return len(s.argTypes) - 1
	}
	return len(s.argTypes)
}

func (s c33Sig) typeAt(k int) string {
	if len(s.argTypes) == 0 {
		return ""
	}
	if k >= len(s.argTypes) {
		k = len(s.argTypes) - 1
	}
	return s.argTypes[k]
}

var c33LenGuard = regexp.MustCompile(`^len\((\w+)\) (>=|>|==) (\d+)$`)

func runC33Args(c *eng.Ctx) {
	p := c.P
	sigsLit, ppk := p.MapLitEntries("promql/parser:Functions")
	impls, ipk := p.MapLitEntries("promql:FunctionCalls")
	sigs := map[string]c33Sig{}
	for name, v := range sigsLit {
		cl, ok := ast.Unparen(v).(*ast.CompositeLit)
		if !ok {
			continue
		}
		var s c33Sig
		for _, el := range cl.Elts {
			kv, ok := el.(*ast.KeyValueExpr)
			if !ok {
				continue
			}
			switch eng.ExprString(kv.Key) {
			case "ArgTypes":
				if al, ok := kv.Value.(*ast.CompositeLit); ok {
					for _, a := range al.Elts {
						s.argTypes = append(s.argTypes, strings.TrimPrefix(eng.ExprString(a), "ValueType"))
					}
				}
			case "Variadic":
				if tv := ppk.TypesInfo.Types[kv.Value]; tv.Value != nil {
					n, _ := constant.Int64Val(tv.Value)
					s.variadic = int(n)
				}
			}
		}
		sigs[name] = s
	}
	names := make([]string, 0, len(impls))
	for n := range impls {
		names = append(names, n)
	}
	sort.Strings(names)
	nImpl, nSites := 0, 0
	for _, name := range names {
		id, ok := ast.Unparen(impls[name]).(*ast.Ident)
		if !ok || id.Name == "nil" {
			continue
		}
		fo, ok := ipk.TypesInfo.Uses[id].(*types.Func)
		if !ok {
			continue
		}
		sig, ok := sigs[name]
		if !ok {
			continue // reported by R1
		}
		nImpl++
		f := c.Fn("promql:" + fo.Name())
		params := f.Decl.Type.Params.List
		pv := map[types.Object]int{}
		idx := 0
		for _, fl := range params {
			for _, nm := range fl.Names {
				if o := f.Info.Defs[nm]; o != nil {
					pv[o] = idx
				}
				idx++
			}
		}
		paramOf := func(e ast.Expr) int {
			if id, ok := ast.Unparen(e).(*ast.Ident); ok {
				if k, ok := pv[f.Info.Uses[id]]; ok {
					return k
				}
			}
			return -1
		}
		where := fmt.Sprintf("promql:%s (%s)", fo.Name(), name)
		// With a range-vector argument at position m the evaluator packs the other arguments' vectors:
		// vectorVals[k] belongs to argument k (k < m) or k+1 (k ≥ m).
		matrixAt := -1
		for i, t := range sig.argTypes {
			if t == "Matrix" && matrixAt < 0 {
				matrixAt = i
			}
		}
		argOfVec := func(k int) int {
			if matrixAt >= 0 && k >= matrixAt {
				return k + 1
			}
			return k
		}
		guarded := func(n ast.Node, param string, k int) bool {
			for _, cond := range f.CondsOf(n) {
				if !strings.HasSuffix(cond, "=T") {
					continue
				}
				for _, cj := range strings.Split(strings.TrimSuffix(cond, "=T"), " && ") {
					m := c33LenGuard.FindStringSubmatch(strings.TrimSpace(cj))
					if m == nil {
						continue
					}
					if m[1] != param && m[1] != "args" && m[1] != "vectorVals" && m[1] != "vals" {
						continue
					}
					v, _ := strconv.Atoi(m[3])
					if (m[2] == ">=" || m[2] == "==") && v >= k+1 || m[2] == ">" && v >= k {
						return true
					}
				}
			}
			return false
		}
		ast.Inspect(f.Body, func(n ast.Node) bool {
			switch x := n.(type) {
			case *ast.IndexExpr:
				pi := paramOf(x.X)
				if pi < 0 || pi > 2 {
					// vectorVals[k][0]: a sample of the k-th argument's vector
					if in, ok := ast.Unparen(x.X).(*ast.IndexExpr); ok && paramOf(in.X) == 0 {
						if tv := f.Info.Types[in.Index]; tv.Value != nil {
							k64, _ := constant.Int64Val(tv.Value)
							nSites++
							a := argOfVec(int(k64))
							c.Check("R7", where, fmt.Sprintf("%s reads a sample of an argument that the signature types as scalar (exactly one sample)", nodeText(x)), sig.typeAt(a) == "Scalar", p.Pos(x.Pos()),
								fmt.Sprintf("argument %d of %s is typed %s: its vector may be empty at a step", a, name, sig.typeAt(a)))
						}
					}
					return true
				}
				tv := f.Info.Types[x.Index]
				if tv.Value == nil {
					return true
				}
				k64, _ := constant.Int64Val(tv.Value)
				k := int(k64)
				nSites++
				pname := eng.ExprString(x.X)
				if pi == 0 {
					k = argOfVec(k)
				}
				switch pi {
				case 0, 2:
					ok := k < sig.mandatory() || (k < len(sig.argTypes)+max(sig.variadic, 0) || sig.variadic < 0) && guarded(x, pname, k)
					c.Check("R7", where, fmt.Sprintf("%s is within the arguments the parser guarantees for %s (%d mandatory), or under a len test", nodeText(x), name, sig.mandatory()), ok, p.Pos(x.Pos()),
						fmt.Sprintf("signature %v variadic=%d", sig.argTypes, sig.variadic))
				case 1:
					has := false
					for _, t := range sig.argTypes {
						has = has || t == "Matrix"
					}
					c.Check("R7", where, fmt.Sprintf("%s is read only by a function with a range-vector argument (the evaluator passes nil otherwise)", nodeText(x)), has && k == 0, p.Pos(x.Pos()),
						fmt.Sprintf("signature %v", sig.argTypes))
				}
			case *ast.TypeAssertExpr:
				in, ok := ast.Unparen(x.X).(*ast.IndexExpr)
				if !ok || paramOf(in.X) != 2 || x.Type == nil {
					return true
				}
				tv := f.Info.Types[in.Index]
				if tv.Value == nil {
					return true
				}
				k64, _ := constant.Int64Val(tv.Value)
				want := map[string]string{"*parser.MatrixSelector": "Matrix", "*parser.StringLiteral": "String"}[eng.ExprString(x.Type)]
				nSites++
				c.Check("R7", where, fmt.Sprintf("%s asserts the node type the signature guarantees for that argument", nodeText(x)), want != "" && sig.typeAt(int(k64)) == want, p.Pos(x.Pos()),
					fmt.Sprintf("argument %d of %s is typed %s", k64, name, sig.typeAt(int(k64))))
			}
			return true
		})
	}
	c.Check("R7", "promql:FunctionCalls", "implementations examined ≥ 60, constant argument accesses ≥ 90", nImpl >= 60 && nSites >= 90, "", fmt.Sprintf("%d implementations, %d sites", nImpl, nSites))
}
