package main

import (
	"fmt"
	"go/ast"
	"go/constant"
	"strings"

	"promverif/eng"
)

// C25.R3 (added for seed C25-c): replaying the head chunk files has to survive a torn tail — a file that ends anywhere
// inside its last chunk is reported as corrupt (and repaired), never read past its end.  The fixed-size header of a
// chunk is covered by the check at the top of the loop; after the variable-length skip `idx += int(dataLen)` every
// read `Range(lo, hi)` of the file lies behind a guard `if E > fileEnd { return … }` with hi ≤ E (as linear forms
// over idx and the package's constants), with no assignment to idx between the guard and the read.
func runC25Bounds(c *eng.Ctx) {
	p := c.P
	f := c.Fn("tsdb/chunks:ChunkDiskMapper.IterateAllChunks")
	constVal := func(name string) (int64, bool) {
		var v int64
		found := false
		ast.Inspect(f.Body, func(x ast.Node) bool {
			if id, ok := x.(*ast.Ident); ok && id.Name == name && !found {
				if tv, ok := f.Info.Types[id]; ok && tv.Value != nil && constant.ToInt(tv.Value).Kind() == constant.Int {
					if n, exact := constant.Int64Val(constant.ToInt(tv.Value)); exact {
						v, found = n, true
					}
				}
			}
			return true
		})
		return v, found
	}
	// hi ≤ E ?  (E − hi folds to a non-negative constant)
	leq := func(hi, e eng.LinForm) bool {
		d := e.Minus(hi)
		rest := d.Const
		for t, k := range d.Terms {
			if k == 0 {
				continue
			}
			v, ok := constVal(t)
			if !ok {
				return false
			}
			rest += int64(k) * v
		}
		return rest >= 0
	}
	var loop *ast.ForStmt
	ast.Inspect(f.Body, func(x ast.Node) bool {
		if fs, ok := x.(*ast.ForStmt); ok && fs.Cond != nil && nodeText(fs.Cond) == "idx < fileEnd" {
			loop = fs
		}
		return true
	})
	if loop == nil {
		c.Fail("R3", f.Where(), "the loop over one file's chunks found", p.Pos(f.Body.Pos()), "")
		return
	}
	skip := -1
	for i, st := range loop.Body.List {
		if as, ok := st.(*ast.AssignStmt); ok && as.Tok.String() == "+=" && nodeText(as.Lhs[0]) == "idx" && strings.Contains(nodeText(as.Rhs[0]), "dataLen") {
			skip = i
		}
	}
	if skip < 0 {
		c.Fail("R3", f.Where(), "the variable-length skip idx += int(dataLen) found", p.Pos(loop.Pos()), "")
		return
	}
	var guard *eng.LinForm
	reads := 0
	for _, st := range loop.Body.List[skip+1:] {
		if as, ok := st.(*ast.AssignStmt); ok && nodeText(as.Lhs[0]) == "idx" {
			guard = nil // idx moves: an earlier guard says nothing about later reads
		}
		// reads in this statement (before a guard defined by the same statement takes effect)
		ast.Inspect(st, func(x ast.Node) bool {
			call, ok := x.(*ast.CallExpr)
			if !ok || !strings.HasSuffix(nodeText(call.Fun), ".byteSlice.Range") || len(call.Args) != 2 {
				return true
			}
			hi, ok := eng.Linear(f.Info, call.Args[1])
			if !ok {
				c.Fail("R3", f.Where(), "the upper end of a read of the file is linear in idx", p.Pos(call.Pos()), nodeText(call))
				return true
			}
			reads++
			ok = guard != nil && leq(hi, *guard)
			g := "none"
			if guard != nil {
				g = guard.String() + " > fileEnd"
			}
			c.Check("R3", f.Where(), "a read of the file after the variable-length skip lies behind a bounds guard that covers its upper end", ok, p.Pos(call.Pos()),
				fmt.Sprintf("%s with guard %s — a file torn inside the last chunk's checksum is read past its end (a panic at start-up instead of a reported and repaired corruption)", nodeText(call), g))
			return true
		})
		if is, ok := st.(*ast.IfStmt); ok && is.Init == nil {
			if be, ok := is.Cond.(*ast.BinaryExpr); ok && be.Op.String() == ">" && nodeText(be.Y) == "fileEnd" && len(is.Body.List) > 0 {
				if _, isRet := is.Body.List[len(is.Body.List)-1].(*ast.ReturnStmt); isRet {
					if e, ok := eng.Linear(f.Info, be.X); ok {
						guard = &e
					}
				}
			}
		}
	}
	c.Check("R3", f.Where(), "reads of the file after the variable-length skip found (the checksum and the checksummed range)", reads >= 2, p.Pos(loop.Pos()), fmt.Sprint(reads))
}
