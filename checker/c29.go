package main

import (
	"fmt"
	"go/ast"
	"go/token"
	"sort"
	"strings"

	"promverif/eng"
)

func init() {
	register(&Property{
		ID:        "C29",
		Title:     "Aggregations and binary operators follow the documented semantics",
		Technique: "cross-table agreement: the Go operator each binary-operator arm applies is compared with the operator's own symbol in parser.ItemTypeStr (read from the map literal), for vectorElemBinop's float arm and scalarBinop; branch-arm rules for comparison results (value kept from the left, filter decides); set-operator rules (membership test polarity and which side's signatures are collected); real linear forms of the min/max update tests; sibling agreement of min and max",
		DesignRef: "DESIGN.md §5 C29",
		Level: "Decides only table- and shape-level clauses: every arithmetic and comparison operator applies the Go operator that its own symbol names (+, -, *, /, ==, !=, >, <, >=, <=; ^, % and atan2 through math.Pow, math.Mod, math.Atan2), in both the vector and the scalar implementation; a vector comparison returns the left value and the comparison as the keep flag, an arithmetic operator keeps always; " +
			"`and` keeps left samples whose signature is on the right, `unless` those whose signature is not, `or` all left samples plus the right ones whose signature is not on the left; max replaces the running value exactly when it is smaller than the sample or NaN, min when it is larger or NaN, count counts every sample.",
		Note:           "Trusted: go/packages, go/types, go/cfg; tables in checker/c29.go.",
		Covers:         "promql: vectorElemBinop (float/float arm), scalarBinop, evaluator.VectorAnd/VectorOr/VectorUnless, the MIN/MAX/COUNT arms of evaluator.aggregation; promql/parser: ItemTypeStr.",
		NotCover:       "label matching (on/ignoring/group_left/right), result labels, fill modifiers, the other aggregations (sum/avg with compensation, stddev, quantile, topk, count_values), histogram operands, floating-point results.",
		Run:            runC29,
		MinObligations: 20,
	})
}

func runC29(c *eng.Ctx) {
	defer runC29Sorted(c)
	p := c.P
	Q := "promql:"
	// the operators' own symbols
	sym := map[string]string{}
	for _, pk := range p.Pkgs {
		if pk.PkgPath != "github.com/prometheus/prometheus/promql/parser" {
			continue
		}
		for _, f := range pk.Syntax {
			ast.Inspect(f, func(n ast.Node) bool {
				vs, ok := n.(*ast.ValueSpec)
				if !ok || len(vs.Names) != 1 || vs.Names[0].Name != "ItemTypeStr" || len(vs.Values) != 1 {
					return true
				}
				if cl, ok := vs.Values[0].(*ast.CompositeLit); ok {
					for _, el := range cl.Elts {
						if kv, ok := el.(*ast.KeyValueExpr); ok {
							if lit, ok := kv.Value.(*ast.BasicLit); ok {
								sym[nodeText(kv.Key)] = strings.Trim(lit.Value, `"`)
							}
						}
					}
				}
				return false
			})
		}
	}
	c.Check("R1", "promql/parser:ItemTypeStr", "the operator symbol table was read (≥ 13 binary operators)", len(sym) >= 13 && sym["ADD"] == "+" && sym["GTE"] == ">=", "", fmt.Sprint(len(sym)))
	viaMath := map[string]string{"^": "math.Pow", "%": "math.Mod", "atan2": "math.Atan2"}
	isCmp := map[string]bool{"==": true, "!=": true, ">": true, "<": true, ">=": true, "<=": true}
	// applied returns the operator applied by expression e to (lhs, rhs), "" if e is not of that shape
	applied := func(e ast.Expr) string {
		switch x := ast.Unparen(e).(type) {
		case *ast.BinaryExpr:
			if nodeText(x.X) == "lhs" && nodeText(x.Y) == "rhs" {
				return x.Op.String()
			}
		case *ast.CallExpr:
			if len(x.Args) == 2 && nodeText(x.Args[0]) == "lhs" && nodeText(x.Args[1]) == "rhs" {
				return nodeText(x.Fun)
			}
		}
		return ""
	}
	// keyword operators have no entry in ItemTypeStr: their symbol is the keyword the lexer maps to them
	if _, ok := sym["ATAN2"]; !ok {
		sym["ATAN2"] = "atan2"
	}
	want := func(op string) string {
		s := sym[op]
		if m, ok := viaMath[s]; ok {
			return m
		}
		return s
	}
	// ---- R1 vectorElemBinop, float/float arm ----
	{
		f := c.Fn(Q + "vectorElemBinop")
		var arm *ast.SwitchStmt
		ast.Inspect(f.Body, func(n ast.Node) bool {
			if cc, ok := n.(*ast.CaseClause); ok && len(cc.List) == 1 && nodeText(cc.List[0]) == "hlhs == nil && hrhs == nil" {
				ast.Inspect(cc, func(m ast.Node) bool {
					if sw, ok := m.(*ast.SwitchStmt); ok && sw.Tag != nil && nodeText(sw.Tag) == "op" && arm == nil {
						arm = sw
					}
					return true
				})
				return false
			}
			return true
		})
		rows := 0
		var bad []string
		if arm != nil {
			for _, cl := range arm.Body.List {
				cc := cl.(*ast.CaseClause)
				if len(cc.List) != 1 || len(cc.Body) != 1 {
					continue
				}
				op := strings.TrimPrefix(nodeText(cc.List[0]), "parser.")
				rs, ok := cc.Body[0].(*ast.ReturnStmt)
				if !ok || len(rs.Results) != 5 {
					bad = append(bad, op+": unexpected arm")
					continue
				}
				rows++
				s := sym[op]
				if isCmp[s] {
					if nodeText(rs.Results[0]) != "lhs" || applied(rs.Results[2]) != s {
						bad = append(bad, fmt.Sprintf("%s (%s): returns (%s, keep %s)", op, s, nodeText(rs.Results[0]), nodeText(rs.Results[2])))
					}
				} else {
					if applied(rs.Results[0]) != want(op) || nodeText(rs.Results[2]) != "true" {
						bad = append(bad, fmt.Sprintf("%s (%s): returns (%s, keep %s)", op, s, nodeText(rs.Results[0]), nodeText(rs.Results[2])))
					}
				}
			}
		}
		sort.Strings(bad)
		c.Check("R1", f.Where(), "float ⊕ float: every operator applies the Go operator its symbol names; comparisons return the left value and the test as keep flag", arm != nil && rows >= 13 && len(bad) == 0, p.Pos(f.Body.Pos()), fmt.Sprintf("%d rows; %s", rows, strings.Join(bad, "; ")))
	}
	// ---- R1 scalarBinop ----
	{
		f := c.Fn(Q + "scalarBinop")
		rows := 0
		var bad []string
		ast.Inspect(f.Body, func(n ast.Node) bool {
			cc, ok := n.(*ast.CaseClause)
			if !ok || len(cc.List) != 1 || len(cc.Body) != 1 {
				return true
			}
			op := strings.TrimPrefix(nodeText(cc.List[0]), "parser.")
			rs, ok := cc.Body[0].(*ast.ReturnStmt)
			if !ok || len(rs.Results) != 1 {
				return true
			}
			rows++
			s := sym[op]
			e := rs.Results[0]
			if isCmp[s] {
				call, ok := e.(*ast.CallExpr)
				if !ok || nodeText(call.Fun) != "btos" || len(call.Args) != 1 || applied(call.Args[0]) != s {
					bad = append(bad, fmt.Sprintf("%s (%s): returns %s", op, s, nodeText(e)))
				}
			} else if applied(e) != want(op) {
				bad = append(bad, fmt.Sprintf("%s (%s): returns %s", op, s, nodeText(e)))
			}
			return true
		})
		sort.Strings(bad)
		c.Check("R1", f.Where(), "scalar ⊕ scalar: every operator applies the Go operator its symbol names (comparisons through btos)", rows >= 13 && len(bad) == 0, p.Pos(f.Body.Pos()), fmt.Sprintf("%d rows; %s", rows, strings.Join(bad, "; ")))
	}
	// ---- R2 set operators ----
	keep := func(v string) eng.Matcher {
		return eng.Node("enh.Out = append(enh.Out, "+v+")", func(g *eng.Graph, n ast.Node) bool { return nodeText(n) == "enh.Out = append(enh.Out, "+v+")" })
	}
	mark := func(t string) eng.Matcher {
		return eng.Node(t, func(g *eng.Graph, n ast.Node) bool { return nodeText(n) == t })
	}
	{
		f := c.Fn(Q + "evaluator.VectorAnd")
		f.Has("R2", keep("ls"), 1)
		f.Only("R2", keep("ls"), "keeps a left sample exactly when its signature is present on the right", func(l eng.Loc) bool {
			cs := f.CondsOf(l.Node)
			return len(cs) == 1 && cs[0] == "rightSigOrdinalsPresent[lhsh[i].sigOrdinal]=T"
		})
		f.Has("R2", mark("rightSigOrdinalsPresent[sh.sigOrdinal] = true"), 1)
		f.AstEvery("R2", "loop collecting signatures", func(n ast.Node) bool {
			rs, ok := n.(*ast.RangeStmt)
			return ok && strings.Contains(nodeText(rs.Body), "SigOrdinalsPresent[sh.sigOrdinal] = true")
		}, "ranges over the right side's helpers", func(n ast.Node) bool { return nodeText(n.(*ast.RangeStmt).X) == "rhsh" }, 1)
		f.Hasnt("R2", keep("rs"))
	}
	{
		f := c.Fn(Q + "evaluator.VectorUnless")
		f.Has("R2", keep("ls"), 1)
		f.Only("R2", keep("ls"), "keeps a left sample exactly when its signature is absent on the right", func(l eng.Loc) bool {
			cs := f.CondsOf(l.Node)
			return len(cs) == 1 && cs[0] == "!rightSigOrdinalsPresent[lhsh[i].sigOrdinal]=T"
		})
		f.AstEvery("R2", "loop collecting signatures", func(n ast.Node) bool {
			rs, ok := n.(*ast.RangeStmt)
			return ok && strings.Contains(nodeText(rs.Body), "SigOrdinalsPresent[sh.sigOrdinal] = true")
		}, "ranges over the right side's helpers", func(n ast.Node) bool { return nodeText(n.(*ast.RangeStmt).X) == "rhsh" }, 1)
		f.Only("R2", keep("lhs..."), "short-cuts to the whole left side only when one side is empty", func(l eng.Loc) bool {
			cs := f.CondsOf(l.Node)
			return len(cs) == 1 && cs[0] == "len(lhs) == 0 || len(rhs) == 0=T"
		})
	}
	{
		f := c.Fn(Q + "evaluator.VectorOr")
		f.Has("R2", keep("ls"), 1)
		f.Only("R2", keep("ls"), "keeps every left sample", func(l eng.Loc) bool { return len(f.CondsOf(l.Node)) == 0 })
		f.Has("R2", keep("rs"), 1)
		f.Only("R2", keep("rs"), "adds a right sample exactly when its signature is absent on the left", func(l eng.Loc) bool {
			cs := f.CondsOf(l.Node)
			return len(cs) == 1 && cs[0] == "!leftSigOrdinalsPresent[rhsh[j].sigOrdinal]=T"
		})
		f.Has("R2", mark("leftSigOrdinalsPresent[lhsh[i].sigOrdinal] = true"), 1)
		f.NoPath("R2", keep("rs"), mark("leftSigOrdinalsPresent[lhsh[i].sigOrdinal] = true")) // the left signatures are complete before the right side is filtered
	}
	// ---- R3 min / max / count ----
	{
		f := c.Fn(Q + "evaluator.aggregation")
		var sw *ast.SwitchStmt
		for _, s := range f.EnumSwitches("promql/parser:ItemType") {
			if s.Clauses["MAX"] != nil && s.Clauses["MIN"] != nil && s.Clauses["COUNT"] != nil {
				sw = s.Stmt
			}
		}
		upd := func(op string) (string, string) {
			if sw == nil {
				return "", ""
			}
			for _, cl := range sw.Body.List {
				cc := cl.(*ast.CaseClause)
				if len(cc.List) == 1 && nodeText(cc.List[0]) == "parser."+op {
					for _, st := range cc.Body {
						if is, ok := st.(*ast.IfStmt); ok && strings.Contains(nodeText(is.Body), "group.floatValue = f") {
							be, ok := is.Cond.(*ast.BinaryExpr)
							if ok && be.Op == token.LOR {
								return realForm(f, be.X), nodeText(be.Y)
							}
						}
					}
				}
			}
			return "", ""
		}
		mx, mxNaN := upd("MAX")
		mn, mnNaN := upd("MIN")
		c.Check("R3", f.Where(), "max replaces the running value exactly when it is smaller than the sample, or NaN", mx == "-1*f +1*group.floatValue < 0" && mxNaN == "math.IsNaN(group.floatValue)", p.Pos(f.Body.Pos()), mx+" || "+mxNaN)
		c.Check("R3", f.Where(), "min replaces the running value exactly when it is larger than the sample, or NaN", mn == "+1*f -1*group.floatValue < 0" && mnNaN == "math.IsNaN(group.floatValue)", p.Pos(f.Body.Pos()), mn+" || "+mnNaN)
		cnt := mark("group.groupCount++")
		f.Has("R3", cnt, 1)
		if sw != nil {
			for _, cl := range sw.Body.List {
				cc := cl.(*ast.CaseClause)
				if len(cc.List) == 1 && nodeText(cc.List[0]) == "parser.COUNT" {
					c.Check("R3", f.Where(), "count counts every sample of the group (nothing else in its arm)", len(cc.Body) == 1 && nodeText(cc.Body[0]) == "group.groupCount++", p.Pos(cc.Pos()), "")
				}
			}
		}
	}
	// ---- R4 matching errors do not depend on sample values ----
	// In VectorBinop a matched pair is recorded (one-to-one: signature seen; many-to-one: result metric seen) before a
	// filtering comparison may drop it: otherwise "multiple matches" would be raised or not depending on the values.
	{
		vb := c.Fn(Q+"evaluator.VectorBinop").Closure("doBinOp", p.Call(Q+"resultMetric"))
		drop := eng.Return("return of a filtered-out sample", func(g *eng.Graph, rs *ast.ReturnStmt) bool {
			cs := vb.CondsOf(rs)
			return len(cs) == 1 && cs[0] == "!keep && !returnBool=T"
		})
		vb.Has("R4", drop, 1)
		seen := eng.Or(
			eng.Node("matchedSigsPresent[sigOrd] = true", func(g *eng.Graph, n ast.Node) bool { return nodeText(n) == "matchedSigsPresent[sigOrd] = true" }),
			eng.Node("insertedSigs[insertSig] = struct{}{}", func(g *eng.Graph, n ast.Node) bool { return nodeText(n) == "insertedSigs[insertSig] = struct{}{}" }))
		vb.Has("R4", seen, 2)
		vb.Dom("R4", seen, drop)
		vb.Dom("R4", p.Call(Q+"resultMetric"), drop)
		vb.Only("R4", eng.Node("enh.Out = append(enh.Out, Sample{…})", func(g *eng.Graph, n ast.Node) bool {
			return strings.HasPrefix(nodeText(n), "enh.Out = append(enh.Out, Sample{")
		}),
			"emits the pair only when it was kept or a bool result is wanted", func(l eng.Loc) bool { return vb.UnderCondFalse(l, "!keep && !returnBool") })
	}
}
