package main

import (
	"fmt"
	"go/ast"
	"strings"

	"promverif/eng"
)

// C43.R6 (added for seed C43-c): an OTLP data point flagged NoRecordedValue becomes a staleness marker.  The flag is
// a property of the whole point, so the test of the flag may not depend on which optional fields the point carries:
// in the functions that build one native histogram from a point the test stands at the top level of the function;
// in the functions that emit one series per part (classic histogram, summary) it may sit under `HasSum()` only
// where it decides the value of the optional _sum series.
func runC43Stale(c *eng.Ctx) {
	p := c.P
	pkg := "storage/remote/otlptranslator/prometheusremotewrite"
	n := 0
	for _, fs := range p.AllFuncs() {
		if fs.Decl.Body == nil || !strings.HasSuffix(fs.Pkg.PkgPath, pkg) {
			continue
		}
		name := eng.FuncName(fs.Obj)
		var f *eng.Fn
		ast.Inspect(fs.Decl.Body, func(x ast.Node) bool {
			is, ok := x.(*ast.IfStmt)
			if !ok || !strings.HasSuffix(nodeText(is.Cond), ".Flags().NoRecordedValue()") {
				return true
			}
			if f == nil {
				f = c.Fn(name)
			}
			n++
			conds := f.CondsOf(is)
			native := strings.Contains(name, "ToNativeHistogram") || strings.Contains(name, "ToCustomBucketsHistogram")
			ok2 := len(conds) == 0
			if !ok2 && !native && len(conds) == 1 && strings.HasSuffix(conds[0], ".HasSum()=T") {
				// allowed where it decides the optional sum series only: the arm assigns a value that is used for the sum sample
				ok2 = strings.Contains(nodeText(is.Body), "StaleNaN")
			}
			c.Check("R6", name, fmt.Sprintf("the NoRecordedValue test at %s does not depend on optional fields of the point", p.Pos(is.Pos())), ok2, p.Pos(is.Pos()),
				"enclosing conditions: "+strings.Join(conds, " ; ")+" — a stale point without that field is converted as a regular sample (sum 0, count 0)")
			if native {
				t := nodeText(is.Body)
				c.Check("R6", name, "a stale point marks both sum and count of the native histogram stale", strings.Contains(t, "h.Sum = math.Float64frombits(value.StaleNaN)") && strings.Contains(t, "h.Count = value.StaleNaN"), p.Pos(is.Pos()), t)
			}
			return true
		})
	}
	c.Check("R6", pkg, "NoRecordedValue tests examined (≥ 9)", n >= 9, "", fmt.Sprint(n))
}
