package main

import (
	"fmt"
	"go/ast"
	"strings"

	"promverif/eng"
)

func init() {
	register(&Property{
		ID:        "C52",
		Title:     "The head's reported counters match its contents",
		Technique: "pairing (path-count dataflow on go/cfg) for the active-appender gauge; sibling/family agreement over the typed module for series- and chunk-counter sites",
		DesignRef: "DESIGN.md §5 C52",
		Level: "Decides that every path through appender creation / Commit / Rollback changes the active-appender gauge exactly once; that the three series-deleting siblings and the " +
			"snapshot loader adjust the same family of counters independently per series state; that the function discarding all series resets every counter the loaders increment; " +
			"and that every site installing or discarding chunks of a series is paired with a chunk-gauge adjustment.",
		Note:           "Trusted: go/packages, go/cfg; the family tables in checker/c52.go (confirmed by reading; findings F1/F9 were repaired by fix: commits).",
		Covers:         "activeAppenders Inc/Dec pairing (v1, v2, init appenders); counter family of gc/gcSeries/deleteSeriesByID/loadChunkSnapshot/resetInMemoryState; metric update calls in commit*/WAL-replay append arms; chunk gauge adjustment next to setHeadChunks / mmappedChunks writers.",
		NotCover:       "that the deltas are numerically right; histories (which sequence of operations reaches which site).",
		Run:            runC52,
		MinObligations: 60,
	})
}

func runC52(c *eng.Ctx) {
	defer runC52Whole(c)
	defer runC52Flag(c)
	p := c.P
	inc := p.MethodOn("tsdb:headMetrics.activeAppenders", "Inc")
	dec := p.MethodOn("tsdb:headMetrics.activeAppenders", "Dec")
	// ---- R1 pairing of the active-appenders gauge ----
	for _, fn := range []string{"tsdb:Head.Appender", "tsdb:Head.AppenderV2"} {
		c.Fn(fn).CountOnPaths("R1", "activeAppenders.Inc", []eng.Matcher{inc}, 1, eng.AnyExit)
	}
	{
		rollback := p.Call("tsdb:headAppenderBase.Rollback")
		cm := c.Fn("tsdb:headAppenderBase.Commit").Given("a.closed", false)
		cm.CountOnPaths("R1", "activeAppenders.Dec (direct, deferred or via Rollback)", []eng.Matcher{dec, rollback}, 1, eng.AnyExit)
		rb := c.Fn("tsdb:headAppenderBase.Rollback").Given("a.closed", false)
		rb.CountOnPaths("R1", "activeAppenders.Dec (direct or deferred)", []eng.Matcher{dec}, 1, eng.AnyExit)
		// the closed guard comes first, so a second Commit/Rollback changes nothing
		c.Fn("tsdb:headAppenderBase.Commit").Dom("R1", p.FieldUse("tsdb:headAppenderBase.closed"), eng.Or(eng.Deferred(dec), rollback))
		c.Fn("tsdb:headAppenderBase.Rollback").Dom("R1", p.FieldUse("tsdb:headAppenderBase.closed"), eng.Deferred(dec))
	}
	for _, s := range []struct{ typ, iface string }{{"initAppender", "storage:Appender"}, {"initAppenderV2", "storage:AppenderV2"}} {
		for _, m := range []string{"Commit", "Rollback"} {
			f := c.Fn("tsdb:" + s.typ + "." + m)
			delegate := p.Call(s.iface+"."+m).WithRecv("a.app", p.IsFieldExpr("tsdb:"+s.typ+".app"))
			f.CountOnPaths("R1", "activeAppenders.Dec (direct or by delegating to a.app."+m+")", []eng.Matcher{dec, delegate}, 1, eng.AnyExit)
		}
	}
	c.OnlyIn("R1", inc, 2, "tsdb:Head.Appender", "tsdb:Head.AppenderV2")
	c.OnlyIn("R1", dec, 6, "tsdb:headAppenderBase.Commit", "tsdb:headAppenderBase.Rollback",
		"tsdb:initAppender.Commit", "tsdb:initAppender.Rollback", "tsdb:initAppenderV2.Commit", "tsdb:initAppenderV2.Rollback")

	// ---- R2 counter family of the series-deleting siblings ----
	family := []struct {
		field, method string
	}{
		{"tsdb:headMetrics.seriesRemoved", "Add"}, {"tsdb:headMetrics.chunksRemoved", "Add"}, {"tsdb:headMetrics.chunks", "Sub"},
		{"tsdb:Head.numSeries", "Sub"}, {"tsdb:Head.numStaleSeries", "Sub"},
		{"tsdb:Head.numNativeHistogramSeries", "Sub"}, {"tsdb:Head.numNativeHistogramBuckets", "Sub"},
	}
	for _, fn := range []string{"tsdb:Head.gc", "tsdb:Head.gcSeries", "tsdb:Head.deleteSeriesByID"} {
		f := c.Fn(fn)
		for _, m := range family {
			f.Has("R2", p.MethodOn(m.field, m.method), 1)
		}
		// the gauge and the removed-counter move by the same amount
		a := f.Find(p.MethodOn("tsdb:headMetrics.chunksRemoved", "Add"))
		b := f.Find(p.MethodOn("tsdb:headMetrics.chunks", "Sub"))
		ok := len(a) == 1 && len(b) == 1 && strings.Join(eng.CallArgsText(a[0]), ",") == strings.Join(eng.CallArgsText(b[0]), ",")
		pos := ""
		if len(b) > 0 {
			pos = f.At(b[0])
		}
		c.Check("R2", f.Where(), "chunks.Sub(x) and chunksRemoved.Add(x) use the same x", ok, pos, "the chunk gauge and the removed counter are adjusted with different expressions")
	}
	// per-series state accounting: stale and histogram are independent attributes of a series
	type acct struct {
		fn, closureTag      string
		stale, hist, bucket eng.Matcher
	}
	for _, a := range []acct{
		{"tsdb:stripeSeries.gc", "check", eng.IncVar("staleSeriesDeleted"), eng.IncVar("histogramSeriesDeleted"), eng.IncVar("histogramBucketsDeleted")},
		{"tsdb:stripeSeries.gcSeries", "check", eng.IncVar("staleSeriesDeleted"), eng.IncVar("histogramSeriesDeleted"), eng.IncVar("histogramBucketsDeleted")},
		{"tsdb:Head.deleteSeriesByID", "", eng.IncVar("staleSeriesDeleted"), eng.IncVar("histogramSeriesDeleted"), eng.IncVar("histogramBucketsDeleted")},
		{"tsdb:Head.loadChunkSnapshot", "restore", p.MethodOn("tsdb:Head.numStaleSeries", "Inc"), p.MethodOn("tsdb:Head.numNativeHistogramSeries", "Inc"), p.Call("tsdb:Head.addNativeHistogramBuckets")},
	} {
		state := p.Call("tsdb:memSeries.sampleState")
		f := c.Fn(a.fn)
		if a.closureTag != "" {
			f = f.InnerClosure(a.closureTag, state)
		}
		f.Dom("R2", state, a.stale)
		f.Dom("R2", state, a.hist)
		f.Dom("R2", a.hist, a.bucket)
		st, hi := a.stale, a.hist
		f.PathExists("R2", &st, a.hist, state)      // a stale histogram series counts in both (same series: without passing sampleState again)
		f.PathExists("R2", &state, a.hist, a.stale) // a live histogram series counts as histogram
		f.PathExists("R2", &state, a.stale, a.hist) // (order) stale is decided before histogram …
		_ = hi
	}
	// every reader of the per-series state is in the family table (a new one must be classified)
	c.CallersSubset("R2", "tsdb:memSeries.sampleState", 9,
		"tsdb:stripeSeries.gc", "tsdb:stripeSeries.gcSeries", "tsdb:Head.deleteSeriesByID", "tsdb:Head.loadChunkSnapshot",
		"tsdb:headAppenderBase.commitFloats", "tsdb:headAppenderBase.commitHistograms", "tsdb:headAppenderBase.commitFloatHistograms",
		"tsdb:Head.appendWALFloat", "tsdb:Head.appendWALHistogram")
	// the function that discards every series resets every counter the loaders increment
	{
		loaders := []string{"tsdb:Head.loadChunkSnapshot", "tsdb:Head.addNativeHistogramBuckets", "tsdb:Head.updateMinMaxTime", "tsdb:Head.updateMinOOOMaxOOOTime",
			"tsdb:Head.getOrCreateWithOptionalID", "tsdb:Head.updateStaleSeriesMetricOnAppend", "tsdb:Head.updateNativeHistogramMetricsOnAppend"}
		inc := c.AtomicFieldsWrittenIn("tsdb:Head", loaders...)
		reset := c.AtomicFieldsWrittenIn("tsdb:Head", "tsdb:Head.resetInMemoryState")
		exceptions := map[string]string{
			"lastSeriesID": "identity counter: must never go back (C22.R1), deliberately not reset",
		}
		n := 0
		for _, fld := range eng.SortedKeys(inc) {
			if _, ex := exceptions[fld]; ex {
				continue
			}
			n++
			_, ok := reset[fld]
			c.Check("R2", "tsdb:Head.resetInMemoryState", "resets Head."+fld+" (incremented by "+strings.Join(eng.SortedSiteFuncs(inc[fld]), ",")+")", ok,
				p.Pos(p.Src("tsdb:Head.resetInMemoryState").Decl.Pos()),
				"Head."+fld+" is adjusted while loading series but not reset when all series are discarded: the next load counts on top of the stale value")
		}
		c.Check("R2", "tsdb:Head.resetInMemoryState", "family of loader-incremented atomic counters has ≥6 members", n >= 6, "", fmt.Sprintf("only %d found", n))
		// and the chunk gauge, which lives in headMetrics
		r := c.Fn("tsdb:Head.resetInMemoryState")
		r.Has("R2", p.MethodOn("tsdb:headMetrics.chunks", "Set").WithArg(0, "0", eng.ExprText("0")), 1)
	}

	// ---- R3 metric updates next to every in-order append (commit and WAL replay siblings) ----
	upStale := p.Call("tsdb:Head.updateStaleSeriesMetricOnAppend")
	upHist := p.Call("tsdb:Head.updateNativeHistogramMetricsOnAppend")
	state := p.Call("tsdb:memSeries.sampleState")
	for _, s := range []struct{ fn, app string }{
		{"tsdb:headAppenderBase.commitFloats", "tsdb:memSeries.append"},
		{"tsdb:headAppenderBase.commitHistograms", "tsdb:memSeries.appendHistogram"},
		{"tsdb:headAppenderBase.commitFloatHistograms", "tsdb:memSeries.appendFloatHistogram"},
	} {
		f := c.Fn(s.fn)
		app := p.Call(s.app)
		f.Dom("R3", state, app) // the previous state is captured before the append overwrites it
		f.Dom("R3", app, upStale)
		f.Dom("R3", app, upHist)
		// a created chunk is reported: from the append every path to the next sample / exit passes the
		// `if chunkCreated { onChunkCreated }` test
		test := eng.Node("test of chunkCreated", func(g *eng.Graph, n ast.Node) bool {
			id, ok := n.(*ast.Ident)
			if !ok || id.Name != "chunkCreated" {
				return false
			}
			return g.IsCondOperand(id)
		})
		f.AllPaths("R3", app, test, eng.AnyExit)
		f.Dom("R3", test, p.Call("tsdb:Head.onChunkCreated"))
	}
	for _, fn := range []string{"tsdb:Head.appendWALFloat", "tsdb:Head.appendWALHistogram"} {
		f := c.Fn(fn)
		f.Dom("R3", state, p.Call("tsdb:Head.appendChunkAndMmap"))
		f.Dom("R3", p.Call("tsdb:Head.appendChunkAndMmap"), upStale)
		f.Dom("R3", p.Call("tsdb:Head.appendChunkAndMmap"), upHist)
	}
	{
		f := c.Fn("tsdb:Head.onChunkCreated")
		f.DomOK("R3", p.MethodOn("tsdb:headMetrics.chunks", "Inc"))
		g := c.Fn("tsdb:Head.appendChunkAndMmap").Given("chunkCreated", true)
		g.DomOK("R3", p.MethodOn("tsdb:headMetrics.chunks", "Inc"))
	}

	// ---- R4 chunk gauge next to every site that installs or discards chunks of a series ----
	chunksAdj := p.MethodOn("tsdb:headMetrics.chunks", "Add", "Sub", "Inc", "Dec", "Set")
	set := p.Call("tsdb:memSeries.setHeadChunks")
	c.CallersSubset("R4", "tsdb:memSeries.setHeadChunks", 6,
		"tsdb:Head.loadMmappedChunks",            // drops a restored chain superseded by an m-mapped chunk: subtracts (fix F9)
		"tsdb:Head.loadChunkSnapshot",            // installs restored chunks: adds (fix F9)
		"tsdb:Head.resetSeriesWithMMappedChunks", // drops replayed head chunks of the old incarnation: subtracts (fix F92)
		"tsdb:memSeries.truncateChunksBefore",    // returns the number removed; stripeSeries.gc sums it, Head.gc subtracts
		"tsdb:memSeries.mmapChunks",              // head → m-mapped: count-neutral
	)
	{
		f := c.Fn("tsdb:Head.loadMmappedChunks").InnerClosure("iterate", set)
		f.AllPaths("R4", set, chunksAdj, eng.AnyExit)
		g := c.Fn("tsdb:Head.loadChunkSnapshot").InnerClosure("restore", set)
		g.AllPaths("R4", set, chunksAdj, eng.OKExit)
		// truncateChunksBefore → stripeSeries.gc → Head.gc
		c.CallersSubset("R4", "tsdb:memSeries.truncateChunksBefore", 1, "tsdb:stripeSeries.gc")
		c.CallersSubset("R4", "tsdb:stripeSeries.gc", 1, "tsdb:Head.gc")
		// resetSeriesWithMMappedChunks drops the head chunks replayed for the old incarnation of a series when its
		// second series record is replayed (finding F92: it did so without adjusting the gauge; this was a declared
		// exception until the history of TestHead_WALMultiRef showed gauge 3 / recount 2 after a restart).
		r := c.Fn("tsdb:Head.resetSeriesWithMMappedChunks")
		r.Dom("R4", chunksAdj, p.Store("tsdb:memSeries.mmappedChunks"))
		r.AllPaths("R4", set, chunksAdj, eng.AnyExit)
	}
	// the out-of-order head chunk (finding F93): created by cutNewOOOHeadChunk (counted by its callers through
	// chunkCreated, R3), turned into m-mapped chunks by mmapCurrentOOOHeadChunk, dropped by the WBL replay at an
	// m-map marker — the drop is followed by a gauge adjustment.
	c.WritersSubset("R4", "tsdb:memSeriesOOOFields.oooHeadChunk", 3,
		"tsdb:memSeries.cutNewOOOHeadChunk", "tsdb:memSeries.mmapCurrentOOOHeadChunk", "tsdb:wblSubsetProcessor.processWBLSamples")
	{
		w := c.Fn("tsdb:wblSubsetProcessor.processWBLSamples")
		drop := p.StoreVal("tsdb:memSeriesOOOFields.oooHeadChunk", "nil", eng.IsIdent("nil"))
		w.Has("R4", drop, 1)
		w.AllPaths("R4", drop, chunksAdj, eng.AnyExit)
	}
	c.WritersSubset("R4", "tsdb:memSeries.mmappedChunks", 5,
		"tsdb:Head.loadMmappedChunks", "tsdb:Head.resetSeriesWithMMappedChunks", "tsdb:memSeries.mmapChunks",
		"tsdb:memSeries.truncateChunksBefore", "tsdb:Head.deleteSeriesByID")
	{
		f := c.Fn("tsdb:Head.loadMmappedChunks").InnerClosure("iterate", p.Store("tsdb:memSeries.mmappedChunks"))
		f.Dom("R4", chunksAdj, p.Store("tsdb:memSeries.mmappedChunks"))
		// m-mapped chunks of series that do not exist yet are counted when the series record is replayed
		c.CallersSubset("R4", "tsdb:Head.resetSeriesWithMMappedChunks", 1, "tsdb:walSubsetProcessor.processWALSamples")
	}
	_ = ast.Inspect
}
