package main

import (
	"fmt"
	"go/ast"
	"go/types"
	"sort"
	"strings"

	"promverif/eng"
)

// C16.R5 range guards of the head's label queries.  A label-name / label-value query answers "nothing" without
// looking at the index when its time range cannot contain data of the head.  That short cut is sound only if the
// test implies that [mint, maxt] and every data range of the reader are disjoint as closed intervals.  The guard is
// put in disjunctive normal form over integer comparisons (one-line boolean helpers are inlined, `<=` becomes `<`
// by shifting the constant), and every disjunct has to contain, for all data ranges of the reader, the strict atom
// `maxt < min(range)` — or, for all of them, `mint > max(range)`.
func runC16Range(c *eng.Ctx) {
	p := c.P
	T := "tsdb:"
	type rng struct{ lo, hi string }
	inOrder := rng{"MinTime()", "MaxTime()"}
	ooo := rng{"MinOOOTime()", "MaxOOOTime()"}
	readers := []struct {
		fn     string
		ranges []rng
		must   bool
	}{
		{T + "headIndexReader.LabelValues", []rng{inOrder}, true},
		{T + "headIndexReader.LabelNames", []rng{inOrder}, true},
		{T + "HeadAndOOOIndexReader.LabelValues", []rng{inOrder, ooo}, true},
		{T + "HeadAndOOOIndexReader.LabelNames", []rng{inOrder, ooo}, false},
	}
	role := func(atom string) string {
		// atom is a printed LinForm "±1*term ±1*term [±c]" meaning (…) < 0
		var pos, neg, cst string
		for _, tok := range strings.Fields(atom) {
			switch {
			case strings.HasPrefix(tok, "+1*"):
				pos = tok[3:]
			case strings.HasPrefix(tok, "-1*"):
				neg = tok[3:]
			default:
				cst = tok
			}
		}
		if cst != "" || pos == "" || neg == "" {
			return "other(" + atom + " < 0)"
		}
		suffix := func(s string) string {
			if i := strings.LastIndex(s, "."); i >= 0 {
				return s[i+1:]
			}
			return s
		}
		return suffix(pos) + "<" + suffix(neg)
	}
	n := 0
	for _, r := range readers {
		if p.TryFunc(r.fn) == nil {
			if r.must {
				c.Fail("R5", r.fn, "function exists", "", "")
			}
			continue
		}
		f := c.Fn(r.fn)
		inline := func(e ast.Expr) (ast.Expr, *types.Info) {
			call, ok := e.(*ast.CallExpr)
			if !ok || len(call.Args) != 0 {
				return nil, nil
			}
			callee := f.Callee(call)
			if callee == nil {
				return nil, nil
			}
			if t, ok := callee.Type().(*types.Signature); !ok || t.Results().Len() != 1 || t.Results().At(0).Type().String() != "bool" {
				return nil, nil
			}
			fs := p.SrcOf(callee)
			if fs == nil || fs.Decl.Body == nil || len(fs.Decl.Body.List) != 1 {
				return nil, nil
			}
			rs, ok := fs.Decl.Body.List[0].(*ast.ReturnStmt)
			if !ok || len(rs.Results) != 1 {
				return nil, nil
			}
			return rs.Results[0], fs.Pkg.TypesInfo
		}
		ast.Inspect(f.Body, func(x ast.Node) bool {
			is, ok := x.(*ast.IfStmt)
			if !ok || len(is.Body.List) != 1 {
				return true
			}
			ret, ok := is.Body.List[0].(*ast.ReturnStmt)
			if !ok || len(ret.Results) != 2 || nodeText(ret.Results[0]) != "[]string{}" || nodeText(ret.Results[1]) != "nil" {
				return true
			}
			n++
			dnf, ok := eng.DNF(f.Info, is.Cond, inline)
			what := "the empty answer without consulting the index is given only when the queried range lies strictly before or strictly after every data range of the reader"
			if !ok {
				c.Fail("R5", f.Where(), what, p.Pos(is.Pos()), "the guard is not a boolean combination of integer comparisons: "+nodeText(is.Cond))
				return true
			}
			var bad []string
			for _, d := range dnf {
				have := map[string]bool{}
				var roles []string
				for _, a := range d {
					have[role(a)] = true
					roles = append(roles, role(a))
				}
				before, after := true, true
				for _, g := range r.ranges {
					before = before && have["maxt<"+g.lo]
					after = after && have[g.hi+"<mint"]
				}
				if !before && !after {
					sort.Strings(roles)
					bad = append(bad, "{"+strings.Join(roles, " ∧ ")+"}")
				}
			}
			c.Check("R5", f.Where(), what, len(bad) == 0 && len(dnf) > 0, p.Pos(is.Pos()), fmt.Sprintf("disjunct(s) that do not imply disjointness: %s", strings.Join(bad, " ∨ ")))
			return true
		})
	}
	c.Check("R5", "tsdb", "range guards of head label queries examined (≥ 3)", n >= 3, "", fmt.Sprint(n))
}

// C16.R6 (finding F39): the querier that merges in-order and out-of-order head data answers label queries from the
// same index reader as Select, and that reader's label methods are its own (the ones promoted from the embedded
// in-order reader test the in-order range only, and Go does not dispatch the embedded SortedLabelValues to the
// outer LabelValues).
func runC16OOO(c *eng.Ctx) {
	p := c.P
	T := "tsdb:"
	own := func(typ, method string) bool {
		n := p.Named(T + typ)
		for i := 0; i < n.NumMethods(); i++ {
			if n.Method(i).Name() == method {
				return true
			}
		}
		return false
	}
	for _, m := range []string{"LabelValues", "SortedLabelValues", "LabelNames"} {
		c.Check("R6", T+"HeadAndOOOIndexReader", "declares its own "+m+" (the promoted one only knows the in-order time range)", own("HeadAndOOOIndexReader", m), p.Pos(p.Named(T+"HeadAndOOOIndexReader").Obj().Pos()),
			"a query range that holds only out-of-order samples gets an empty answer from the promoted method while Select returns the series")
	}
	if own("HeadAndOOOIndexReader", "SortedLabelValues") {
		f := c.Fn(T + "HeadAndOOOIndexReader.SortedLabelValues")
		recv := f.Decl.Recv.List[0].Names[0].Name
		f.Has("R6", eng.Node("call of the reader's own LabelValues", func(g *eng.Graph, n ast.Node) bool {
			call, ok := n.(*ast.CallExpr)
			return ok && nodeText(call.Fun) == recv+".LabelValues"
		}), 1)
	}
	for _, m := range []string{"LabelValues", "LabelNames"} {
		f := c.Fn(T + "HeadAndOOOQuerier." + m)
		viaIndex, viaInner := false, false
		ast.Inspect(f.Body, func(n ast.Node) bool {
			if call, ok := n.(*ast.CallExpr); ok {
				t := nodeText(call.Fun)
				viaIndex = viaIndex || strings.HasPrefix(t, "q.index.")
				viaInner = viaInner || strings.HasPrefix(t, "q.querier.")
			}
			return true
		})
		c.Check("R6", f.Where(), "answers from q.index, the reader Select uses, and not from the wrapped in-order querier", viaIndex && !viaInner, p.Pos(f.Body.Pos()),
			"the wrapped querier covers in-order data only (and is nil when the range does not overlap it)")
	}
	sel := c.Fn(T + "HeadAndOOOQuerier.Select")
	sel.Has("R6", eng.Node("selectSeriesSet(… q.index …)", func(g *eng.Graph, n ast.Node) bool {
		call, ok := n.(*ast.CallExpr)
		return ok && nodeText(call.Fun) == "selectSeriesSet" && strings.Contains(nodeText(call), "q.index")
	}), 1)
}

func init() { c16Extra = append(c16Extra, runC16OOO) }
