package main

import (
	"fmt"
	"go/ast"
	"strings"

	"promverif/eng"
)

// C44.R5 (finding F94): pending means "the expression returns the alert and `for` has not elapsed yet".  In the loop of
// AlertingRule.Eval over the active alerts, an alert that is absent from the result continues past the absence block
// only when keep_firing_for keeps it firing; every store of StatePending in that loop is therefore guarded by a
// membership test of the result (`_, ok := resultFPs[fp]` with ok true, or the else arm of the absence test).
func runC44Pending(c *eng.Ctx) {
	p := c.P
	f := c.Fn("rules:AlertingRule.Eval")
	stores := 0
	ast.Inspect(f.Body, func(x ast.Node) bool {
		rs, ok := x.(*ast.RangeStmt)
		if !ok || nodeText(rs.X) != "r.active" {
			return true
		}
		ast.Inspect(rs.Body, func(y ast.Node) bool {
			as, ok := y.(*ast.AssignStmt)
			if !ok || len(as.Lhs) != 1 || nodeText(as.Lhs[0]) != "a.State" || nodeText(as.Rhs[0]) != "StatePending" {
				return true
			}
			stores++
			// enclosing if statements: one of them looks the fingerprint up in the result and the store is on its "present" side
			present := false
			ast.Inspect(rs.Body, func(z ast.Node) bool {
				is, ok := z.(*ast.IfStmt)
				if !ok || is.Init == nil || !(is.Pos() <= as.Pos() && as.End() <= is.End()) {
					return true
				}
				init, ok := is.Init.(*ast.AssignStmt)
				if !ok || len(init.Rhs) != 1 || !strings.HasPrefix(nodeText(init.Rhs[0]), "resultFPs[") {
					return true
				}
				inBody := is.Body.Pos() <= as.Pos() && as.End() <= is.Body.End()
				cond := nodeText(is.Cond)
				switch {
				case inBody && (cond == "ok" || strings.HasPrefix(cond, "ok &&")):
					present = true
				case !inBody && cond == "!ok" && is.Else != nil:
					present = true
				}
				return true
			})
			c.Check("R5", f.Where(), "an alert becomes pending in the loop over the active alerts only if the result contains it (guarded by a lookup in resultFPs)", present, p.Pos(as.Pos()),
				strings.Join(f.CondsOf(as), " ; ")+" — an alert that is absent and only kept by keep_firing_for is demoted to pending when `for` was raised at a reload, and dropped at the next evaluation without ever being resolved")
			return true
		})
		return true
	})
	c.Check("R5", f.Where(), "the demotion of a firing alert whose active time is below a raised `for` found", stores == 1, p.Pos(f.Body.Pos()), fmt.Sprint(stores))
	_ = eng.SortedKeys[bool]
}
