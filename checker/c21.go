package main

import (
	"go/ast"
	"strings"

	"promverif/eng"
)

func init() {
	register(&Property{
		ID:        "C21",
		Title:     "Exemplar storage keeps the most recently accepted exemplars",
		Technique: "must-hold lockset for the ring, its index and cursor; go/cfg gate and all-paths rules for AddExemplar (validation before any mutation; an eviction is always followed by the insertion and the cursor advance, so a no-op return can only happen before anything was evicted); who-may-call rules for the evicting helpers",
		DesignRef: "DESIGN.md §5 C21",
		Level: "Decides that the ring, the per-series index, the write cursor and the out-of-order window are only touched under the storage lock (write lock for writers), that AddExemplar validates before it mutates and returns the validation error, " +
			"that the only slot ever evicted by an append is the one at the write cursor, that once a slot was evicted every path inserts the new exemplar there, advances the cursor and counts the append (a duplicate is recognised before the eviction, never after), and that every accepted exemplar is linked into its series' list in one of the four position cases.",
		Note:           "Trusted: go/packages, go/types, go/cfg; receiver-insensitive lock identification; rule tables in checker/c21.go.",
		Covers:         "CircularExemplarStorage.AddExemplar, validateExemplar call order, removeExemplar/removeIndex/findInsertionIndex callers, lockset of exemplars/index/nextIndex/oooTimeWindowMillis.",
		NotCover:       "the linked-list order inside a series, the duplicate and window comparisons, Resize's copy arithmetic, Select's range filtering.",
		Run:            runC21,
		MinObligations: 18,
	})
}

func runC21(c *eng.Ctx) {
	defer runC21Grow(c)
	p := c.P
	S := "tsdb:CircularExemplarStorage"
	// ---- R1 lockset ----
	unl := map[string]string{"tsdb:NewCircularExemplarStorage": "constructor"}
	holds := []string{S + ".validateExemplar", S + ".removeExemplar", S + ".removeIndex", S + ".findInsertionIndex", S + ".computeMetrics", S + ".grow", S + ".shrink"}
	for _, fld := range []struct {
		name string
		min  int
	}{{"exemplars", 20}, {"index", 6}, {"nextIndex", 8}, {"oooTimeWindowMillis", 2}} {
		c.GuardedBy("R1", S+"."+fld.name, S+".lock", eng.GuardOpts{Min: fld.min, Unlocked: unl, CallerHolds: holds})
	}
	// ---- R2 AddExemplar: validate, then mutate ----
	f := c.Fn(S + ".AddExemplar")
	val := p.Call(S + ".validateExemplar")
	slotStore := eng.Node("ce.exemplars[…].… = …", func(g *eng.Graph, n ast.Node) bool {
		as, ok := n.(*ast.AssignStmt)
		if !ok {
			return false
		}
		for _, l := range as.Lhs {
			if strings.HasPrefix(eng.ExprString(l), "ce.exemplars[") {
				return true
			}
		}
		return false
	})
	f.Dom("R2", p.MethodOn(S+".lock", "Lock"), val)
	f.Has("R2", eng.Deferred(p.MethodOn(S+".lock", "Unlock")), 1)
	f.Dom("R2", val, slotStore)
	f.Dom("R2", val, p.StoreElem(S+".index"))
	f.Dom("R2", val, p.Call(S+".removeExemplar"))
	f.Only("R2", val, "validates for appending (records the out-of-order metric) against the series' index entry", func(l eng.Loc) bool {
		a := eng.CallArgsText(l)
		return len(a) == 3 && a[0] == "idx" && a[1] == "e" && a[2] == "true"
	})
	// a validation error other than "duplicate" is returned
	f.AstEvery("R2", "handling of the validation error", func(n ast.Node) bool {
		is, ok := n.(*ast.IfStmt)
		return ok && eng.ExprString(is.Cond) == "err != nil" && strings.Contains(nodeText(is.Body), "ErrDuplicateExemplar")
	}, "turns only a duplicate into a no-op and returns every other error", func(n ast.Node) bool {
		b := n.(*ast.IfStmt).Body.List
		return len(b) == 2 && nodeText(b[1]) == "return err" && strings.Contains(nodeText(b[0]), "errors.Is(err, storage.ErrDuplicateExemplar)") && strings.Contains(nodeText(b[0]), "return nil")
	}, 1)
	// ---- R3 eviction ⇒ insertion ----
	evict := p.Call(S + ".removeExemplar")
	insert := eng.Node("ce.exemplars[ce.nextIndex].exemplar = e", func(g *eng.Graph, n ast.Node) bool {
		return nodeText(n) == "ce.exemplars[ce.nextIndex].exemplar = e"
	})
	advance := p.Store(S + ".nextIndex")
	f.Has("R3", insert, 1)
	f.AllPaths("R3", evict, insert, eng.AnyExit)
	f.AllPaths("R3", evict, advance, eng.AnyExit)
	f.AllPaths("R3", insert, advance, eng.AnyExit)
	f.AllPaths("R3", insert, p.MethodOn("tsdb:ExemplarMetrics.exemplarsAppended", "Inc"), eng.AnyExit)
	f.NoPath("R3", advance, insert)
	f.Only("R3", evict, "evicts the slot at the write cursor", func(l eng.Loc) bool {
		a := eng.CallArgsText(l)
		if len(a) != 1 || a[0] != "prev" {
			return false
		}
		for _, d := range f.Find(eng.AssignVar("prev")) {
			if as, ok := d.Node.(*ast.AssignStmt); ok && eng.ExprString(as.Rhs[0]) == "&ce.exemplars[ce.nextIndex]" {
				return true
			}
		}
		return false
	})
	f.Only("R3", advance, "moves the cursor one slot forward, wrapping at the ring size", func(l eng.Loc) bool {
		as, ok := l.Node.(*ast.AssignStmt)
		return ok && strings.ReplaceAll(eng.ExprString(as.Rhs[0]), " ", "") == "(ce.nextIndex+1)%len(ce.exemplars)"
	})
	// the index entry of an evicted series is dropped unless it is the one being inserted into
	f.Only("R3", p.Call(S+".removeIndex"), "is skipped only for the series being appended to", func(l eng.Loc) bool { return f.UnderCondFalse(l, "prevRef == idx") })
	f.Has("R3", p.Call(S+".removeIndex"), 1)
	// every position case links the new slot
	f.AstEvery("R3", "position switch", func(n ast.Node) bool {
		sw, ok := n.(*ast.SwitchStmt)
		return ok && sw.Tag == nil && strings.Contains(nodeText(sw), "idx.newest = ce.nextIndex")
	}, "sets prev and next of the new slot in each of its four cases (default included)", func(n ast.Node) bool {
		sw := n.(*ast.SwitchStmt)
		if len(sw.Body.List) != 4 {
			return false
		}
		hasDefault := false
		for _, cl := range sw.Body.List {
			cc := cl.(*ast.CaseClause)
			if cc.List == nil {
				hasDefault = true
			}
			t := nodeText(&ast.BlockStmt{List: cc.Body})
			if !strings.Contains(t, "ce.exemplars[ce.nextIndex].prev = ") || !strings.Contains(t, "ce.exemplars[ce.nextIndex].next = ") {
				return false
			}
		}
		return hasDefault
	}, 1)
	// the position is decided after the eviction, against the series' current oldest and newest entries: the tip case
	// is e.Ts ≥ newest.Ts, the tail case e.Ts < oldest.Ts, both read from the list as it is now (the eviction of the
	// write slot can remove the series' own newest or oldest entry)
	{
		var sw *ast.SwitchStmt
		ast.Inspect(f.Body, func(n ast.Node) bool {
			if s, ok := n.(*ast.SwitchStmt); ok && s.Tag == nil && strings.Contains(nodeText(s), "idx.newest = ce.nextIndex") {
				sw = s
			}
			return true
		})
		conds := map[string]string{}
		if sw != nil {
			for _, cl := range sw.Body.List {
				cc := cl.(*ast.CaseClause)
				body := nodeText(&ast.BlockStmt{List: cc.Body})
				key := ""
				switch {
				case strings.Contains(body, "idx.oldest = ce.nextIndex") && strings.Contains(body, "idx.newest = ce.nextIndex"):
					key = "only"
				case strings.Contains(body, "idx.newest = ce.nextIndex"):
					key = "tip"
				case strings.Contains(body, "idx.oldest = ce.nextIndex"):
					key = "tail"
				default:
					key = "middle"
				}
				if cc.List == nil {
					conds[key] = "default"
				} else if l, ok := eng.LinearCmp(f.Info, cc.List[0]); ok {
					conds[key] = l
				} else {
					conds[key] = nodeText(cc.List[0])
				}
			}
		}
		c.Check("R3", f.Where(), "the position switch tests the live ends of the series' list: only ⇐ !indexExists, tip ⇐ e.Ts ≥ newest.Ts, tail ⇐ e.Ts < oldest.Ts, middle otherwise",
			conds["only"] == "!indexExists" && conds["tip"] == "+1*ce.exemplars[idx.newest].exemplar.Ts -1*e.Ts -1 < 0" && conds["tail"] == "-1*ce.exemplars[idx.oldest].exemplar.Ts +1*e.Ts < 0" && conds["middle"] == "default",
			p.Pos(f.Body.Pos()), eng.KV(conds))
		f.NoPath("R3", eng.Node("the position switch's tip test", func(g *eng.Graph, n ast.Node) bool {
			return nodeText(n) == "e.Ts >= ce.exemplars[idx.newest].exemplar.Ts"
		}), p.Call(S+".removeExemplar")) // evaluated after the eviction, never before it
	}
	c.CallersSubset("R3", S+".removeExemplar", 1, S+".AddExemplar", S+".shrink")
	c.CallersSubset("R3", S+".removeIndex", 1, S+".AddExemplar", S+".shrink")
	c.WritersSubset("R3", S+".nextIndex", 3, S+".AddExemplar", S+".grow", S+".shrink", S+".Resize", "tsdb:NewCircularExemplarStorage")
}
