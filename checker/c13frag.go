package main

import (
	"fmt"
	"go/ast"
	"strings"

	"promverif/eng"
)

// C13.R5 (added for seed C13-c): validateRecord(typ, i) decides whether a fragment may follow what was read before from
// i alone — First/Full only at i == 0, Middle/Last only at i != 0.  So i has to count *every* accepted fragment of the
// record being assembled, including an empty one (the writer emits a zero-length First when exactly one header fits
// into the page).  In each reader: the counter passed to validateRecord is incremented by one statement that is under
// no condition, on every path from an accepted fragment that does not complete the record; a completed record or a
// rejected fragment leaves through a return (Reader: i is a local, zero again on the next call) or resets the counter.
func runC13Frag(c *eng.Ctx) {
	p := c.P
	const W = "tsdb/wlog"
	readers := 0
	for _, fn := range []string{W + ":Reader.nextNew", W + ":LiveReader.buildRecord"} {
		f := c.Fn(fn)
		var counter string
		ast.Inspect(f.Body, func(x ast.Node) bool {
			call, ok := x.(*ast.CallExpr)
			if ok && nodeText(call.Fun) == "validateRecord" && len(call.Args) == 2 {
				counter = nodeText(call.Args[1])
			}
			return true
		})
		if counter == "" {
			c.Fail("R5", f.Where(), "the fragment counter passed to validateRecord found", p.Pos(f.Body.Pos()), "")
			continue
		}
		readers++
		var incs []ast.Node
		var other []string
		ast.Inspect(f.Body, func(x ast.Node) bool {
			switch s := x.(type) {
			case *ast.IncDecStmt:
				if nodeText(s.X) == counter {
					if s.Tok.String() == "++" {
						incs = append(incs, s)
					} else {
						other = append(other, nodeText(s))
					}
				}
			case *ast.AssignStmt:
				for i, l := range s.Lhs {
					if nodeText(l) == counter && s.Tok.String() != ":=" {
						rhs := ""
						if i < len(s.Rhs) {
							rhs = nodeText(s.Rhs[i])
						}
						if s.Tok.String() != "=" || rhs != "0" {
							other = append(other, nodeText(s))
						}
					}
				}
			}
			return true
		})
		c.Check("R5", f.Where(), "the fragment counter "+counter+" is changed only by ++ and by a reset to 0", len(other) == 0, p.Pos(f.Body.Pos()), strings.Join(other, " ; "))
		okInc := len(incs) == 1
		detail := fmt.Sprintf("%d increment(s)", len(incs))
		pos := p.Pos(f.Body.Pos())
		if okInc {
			conds := f.CondsOf(incs[0])
			pos = p.Pos(incs[0].Pos())
			if len(conds) != 0 {
				okInc = false
				detail = "incremented only under " + strings.Join(conds, " ; ") + " — an accepted fragment that is not counted makes validateRecord reject the fragments that follow it: a valid log is reported as corrupt"
			}
		}
		c.Check("R5", f.Where(), "every accepted fragment that does not complete the record is counted: one "+counter+"++ under no condition", okInc, pos, detail)
		if okInc {
			inc := eng.Node(counter+"++", func(g *eng.Graph, n ast.Node) bool { return n == incs[0] })
			f.Dom("R5", p.Call(W+":validateRecord"), inc)
		}
	}
	c.Check("R5", W, "both readers' fragment counters checked", readers == 2, "", fmt.Sprint(readers))
}
