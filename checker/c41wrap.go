package main

import (
	"fmt"
	"go/ast"
	"go/types"
	"sort"
	"strings"

	"promverif/eng"
)

// C41.R5 (finding F56): the remote write receiver refuses samples too far in the future by wrapping the appender.
// The wrapper embeds the appender interface, so every method it does not declare itself is the unguarded one of the
// wrapped appender.  Every method of the embedded interface that receives the sample's timestamp (a parameter named
// t, or an exemplar) has to be declared on the wrapper and start with the `> app.maxTime` test.
func runC41Wrapper(c *eng.Ctx) {
	p := c.P
	defer runC41Counts(c)
	for _, w := range []struct{ typ, field, iface string }{
		{"remoteWriteAppender", "Appender", "storage:Appender"},
		{"remoteWriteAppenderV2", "AppenderV2", "storage:AppenderV2"},
	} {
		named := p.Named("storage/remote:" + w.typ)
		it, ok := p.Named(w.iface).Underlying().(*types.Interface)
		if !ok {
			c.Fail("R5", "storage/remote:"+w.typ, "embedded interface resolved", "", "")
			continue
		}
		own := map[string]bool{}
		for i := 0; i < named.NumMethods(); i++ {
			own[named.Method(i).Name()] = true
		}
		var timed, missing []string
		for i := 0; i < it.NumMethods(); i++ {
			m := it.Method(i)
			sig := m.Type().(*types.Signature)
			takesT := false
			for j := 0; j < sig.Params().Len(); j++ {
				pn, pt := sig.Params().At(j).Name(), sig.Params().At(j).Type().String()
				if pn == "t" && pt == "int64" || strings.HasSuffix(pt, "exemplar.Exemplar") {
					takesT = true
				}
			}
			if !takesT {
				continue
			}
			timed = append(timed, m.Name())
			if !own[m.Name()] {
				missing = append(missing, m.Name())
				continue
			}
			f := c.Fn("storage/remote:" + w.typ + "." + m.Name())
			guarded := false
			if len(f.Body.List) > 0 {
				for _, st := range f.Body.List[:min(2, len(f.Body.List))] {
					if is, ok := st.(*ast.IfStmt); ok && strings.HasSuffix(nodeText(is.Cond), "> app.maxTime") && strings.Contains(nodeText(is.Body), "storage.ErrOutOfBounds") {
						guarded = true
					}
				}
			}
			c.Check("R5", f.Where(), "refuses a timestamp beyond app.maxTime before it calls the wrapped appender", guarded, p.Pos(f.Body.Pos()), "")
		}
		sort.Strings(missing)
		sort.Strings(timed)
		c.Check("R5", "storage/remote:"+w.typ, fmt.Sprintf("declares every method of %s that receives the sample's timestamp (%s)", w.iface, strings.Join(timed, ", ")), len(missing) == 0 && len(timed) >= 1, p.Pos(named.Obj().Pos()),
			"promoted unguarded from the wrapped appender: "+strings.Join(missing, ", ")+" — called before Append, on an empty head they set the head's time range to the refused timestamp and every current sample is out of bounds afterwards")
	}
}

// C41.R6 (finding F59, open): "the written counts equal what was stored".  The receiver counts a sample when Append
// returns nil; the head re-checks ordering and duplicates inside the transaction only at Commit and drops the losers
// silently, and Commit returns nothing but an error.  So the counts can only be right if they are corrected after
// Commit from something Commit reports — which the code cannot do today.  The rule states that dependency: after a
// successful Commit the statistics are adjusted (an assignment to the stats between Commit and the return), or the
// appender's Commit returns more than an error.
func runC41Counts(c *eng.Ctx) {
	p := c.P
	commit := p.Func("storage:Appender.Commit")
	sig := commit.Type().(*types.Signature)
	reportsDrops := sig.Results().Len() > 1
	for _, fn := range []string{"storage/remote:writeHandler.writeV2"} {
		f := c.Fn(fn)
		adjusted := false
		var commitPos int
		ast.Inspect(f.Body, func(n ast.Node) bool {
			if call, ok := n.(*ast.CallExpr); ok && nodeText(call.Fun) == "app.Commit" {
				commitPos = int(call.Pos())
			}
			if as, ok := n.(*ast.AssignStmt); ok && commitPos > 0 && int(as.Pos()) > commitPos {
				for _, l := range as.Lhs {
					if strings.HasPrefix(nodeText(l), "s.") {
						adjusted = true
					}
				}
			}
			return true
		})
		c.Check("R6", f.Where(), "the statistics returned after Commit reflect what Commit kept (Commit reports drops, or the counts are corrected after it)", reportsDrops || adjusted, p.Pos(f.Body.Pos()),
			"samples are counted when Append returns nil; two samples of one series sent in the wrong order (or with equal timestamps) in one request are both counted, Commit drops one without telling")
	}
}
