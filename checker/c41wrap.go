package main

import (
	"fmt"
	"go/ast"
	"go/types"
	"sort"
	"strings"

	"promverif/eng"
)

// C41.R5 (finding F56): the remote write receiver refuses samples too far in the future by wrapping the appender.
// The wrapper embeds the appender interface, so every method it does not declare itself is the unguarded one of the
// wrapped appender.  Every method of the embedded interface that receives the sample's timestamp (a parameter named
// t, or an exemplar) has to be declared on the wrapper and start with the `> app.maxTime` test.
func runC41Wrapper(c *eng.Ctx) {
	p := c.P
	for _, w := range []struct{ typ, field, iface string }{
		{"remoteWriteAppender", "Appender", "storage:Appender"},
		{"remoteWriteAppenderV2", "AppenderV2", "storage:AppenderV2"},
	} {
		named := p.Named("storage/remote:" + w.typ)
		it, ok := p.Named(w.iface).Underlying().(*types.Interface)
		if !ok {
			c.Fail("R5", "storage/remote:"+w.typ, "embedded interface resolved", "", "")
			continue
		}
		own := map[string]bool{}
		for i := 0; i < named.NumMethods(); i++ {
			own[named.Method(i).Name()] = true
		}
		var timed, missing []string
		for i := 0; i < it.NumMethods(); i++ {
			m := it.Method(i)
			sig := m.Type().(*types.Signature)
			takesT := false
			for j := 0; j < sig.Params().Len(); j++ {
				pn, pt := sig.Params().At(j).Name(), sig.Params().At(j).Type().String()
				if pn == "t" && pt == "int64" || strings.HasSuffix(pt, "exemplar.Exemplar") {
					takesT = true
				}
			}
			if !takesT {
				continue
			}
			timed = append(timed, m.Name())
			if !own[m.Name()] {
				missing = append(missing, m.Name())
				continue
			}
			f := c.Fn("storage/remote:" + w.typ + "." + m.Name())
			guarded := false
			if len(f.Body.List) > 0 {
				for _, st := range f.Body.List[:min(2, len(f.Body.List))] {
					if is, ok := st.(*ast.IfStmt); ok && strings.HasSuffix(nodeText(is.Cond), "> app.maxTime") && strings.Contains(nodeText(is.Body), "storage.ErrOutOfBounds") {
						guarded = true
					}
				}
			}
			c.Check("R5", f.Where(), "refuses a timestamp beyond app.maxTime before it calls the wrapped appender", guarded, p.Pos(f.Body.Pos()), "")
		}
		sort.Strings(missing)
		sort.Strings(timed)
		c.Check("R5", "storage/remote:"+w.typ, fmt.Sprintf("declares every method of %s that receives the sample's timestamp (%s)", w.iface, strings.Join(timed, ", ")), len(missing) == 0 && len(timed) >= 1, p.Pos(named.Obj().Pos()),
			"promoted unguarded from the wrapped appender: "+strings.Join(missing, ", ")+" — called before Append, on an empty head they set the head's time range to the refused timestamp and every current sample is out of bounds afterwards")
	}
}
