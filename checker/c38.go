package main

import (
	"go/ast"
	"strings"

	"promverif/eng"
)

func init() {
	register(&Property{
		ID:        "C38",
		Title:     "Relabeling follows the documented actions",
		Technique: "enum exhaustiveness of relabel.Action across parsing, validation and execution (go/types constants vs switch case lists); go/cfg all-paths rules for labels.Builder.Set/Del (a set is always recorded, a delete always shadows the base) under the three label build variants; order rule for ProcessBuilder; anchoring rule for NewRegexp; per-arm clause rules for relabel() (tested value, polarity, written label and its source, by resolved callee and operand)",
		DesignRef: "DESIGN.md §5 C38",
		Level: "Decides that every relabel action constant is accepted by the YAML parser and executed by relabel() (whose default arm panics), that rules are applied in order and processing stops at the first rule that drops the set, that the keep/drop family returns false only from its own arms, that regular expressions are compiled fully anchored, that each of the eleven action arms tests the joined source value (or the label name) with the documented polarity and writes the documented label from the documented source (20 clauses, see DESIGN), " +
			"and that the label builder records every non-empty Set in its override list and every Del in its deletion list on all paths (so a label deleted by one rule and set again by a later one is present, whatever its value).",
		Note:           "Trusted: go/packages, go/types, go/cfg; rule tables in checker/c38.go; builder rules also run under -tags slicelabels / dedupelabels in the thorough tier.",
		Covers:         "relabel.Action tables (UnmarshalYAML, relabel), ProcessBuilder, NewRegexp, labels.Builder.Set/Del/Get/Keep.",
		NotCover:       "the regex engine, template expansion and hashing themselves (library code), sortedness of the result.",
		Run:            runC38,
		Tags:           []string{"slicelabels", "dedupelabels"},
		MinObligations: 34,
	})
}

func runC38(c *eng.Ctx) {
	p := c.P
	// ---- R3 builder (present under every label variant) ----
	B := "model/labels:Builder"
	{
		set := c.Fn(B + ".Set")
		addWrite := eng.Node("write to b.add", func(g *eng.Graph, n ast.Node) bool {
			as, ok := n.(*ast.AssignStmt)
			if !ok {
				return false
			}
			for _, l := range as.Lhs {
				t := eng.ExprString(l)
				if t == "b.add" || strings.HasPrefix(t, "b.add[") {
					return true
				}
			}
			return false
		})
		nonEmpty := set.GivenBranch(`v == ""`, false)
		nonEmpty.DomOK("R3", addWrite) // every way out of Set(n, v≠"") has recorded the pair
		set.GivenBranch(`v == ""`, true).DomOK("R3", p.Call(B+".Del"))
		set.Only("R3", eng.Return("", nil), "returns the builder (or Del's result)", func(l eng.Loc) bool {
			t := eng.ReturnText(l)
			return t == "b" || t == "b.Del(n)"
		})
		del := c.Fn(B + ".Del")
		del.DomOK("R3", eng.LoopOver(eng.Node("b.del = append(b.del, n)", func(g *eng.Graph, n ast.Node) bool { return nodeText(n) == "b.del = append(b.del, n)" })))
		del.AstEvery("R3", "loop over the names to delete", func(n ast.Node) bool {
			rs, ok := n.(*ast.RangeStmt)
			return ok && eng.ExprString(rs.X) == "ns"
		}, "appends every name to b.del unconditionally", func(n ast.Node) bool {
			b := n.(*ast.RangeStmt).Body.List
			return len(b) > 0 && nodeText(b[len(b)-1]) == "b.del = append(b.del, n)"
		}, 1)
		get := c.Fn(B + ".Get")
		get.Dom("R3", eng.LoopOver(eng.Return("a.Value", func(g *eng.Graph, rs *ast.ReturnStmt) bool {
			return len(rs.Results) == 1 && eng.ExprString(rs.Results[0]) == "a.Value"
		})), eng.CallNamed("Contains"))
		get.Dom("R3", eng.CallNamed("Contains"), p.FieldUse(B+".base")) // overrides, then deletions, then the base
	}
	if c.P.Tags != "" {
		return // the relabel package itself does not depend on the label variant
	}
	// ---- R1 action tables ----
	A := "model/relabel:Action"
	c.Fn("model/relabel:Action.UnmarshalYAML").SwitchCovers("R1", A, 1, nil)
	r := c.Fn("model/relabel:relabel")
	r.SwitchCovers("R1", A, 1, nil)
	r.AstEvery("R1", "default arm of the action switch", func(n ast.Node) bool {
		cc, ok := n.(*ast.CaseClause)
		return ok && cc.List == nil
	}, "panics (no action is silently ignored)", func(n ast.Node) bool {
		return strings.HasPrefix(nodeText(&ast.BlockStmt{List: n.(*ast.CaseClause).Body}), "{ panic(")
	}, 1)
	// only the four filtering actions can drop the label set
	r.AstEvery("R1", "case that can return false", func(n ast.Node) bool {
		cc, ok := n.(*ast.CaseClause)
		return ok && cc.List != nil && strings.Contains(nodeText(&ast.BlockStmt{List: cc.Body}), "return false")
	}, "is one of drop / keep / dropequal / keepequal", func(n ast.Node) bool {
		cc := n.(*ast.CaseClause)
		if len(cc.List) != 1 {
			return false
		}
		switch eng.ExprString(cc.List[0]) {
		case "Drop", "Keep", "DropEqual", "KeepEqual":
			return true
		}
		return false
	}, 4)
	runC38Arms(c)
	v := c.Fn("model/relabel:Config.Validate")
	v.Has("R1", p.FieldUse("model/relabel:Config.Action"), 3)
	// ---- R2 order, early stop, anchoring ----
	pb := c.Fn("model/relabel:ProcessBuilder")
	pb.AstEvery("R2", "loop applying the rules", pb.RangeLoopWith(p.Call("model/relabel:relabel")), "ranges over the rules in the given order and stops at the first one that drops the set", func(n ast.Node) bool {
		rs := n.(*ast.RangeStmt)
		return eng.ExprString(rs.X) == "cfgs" && strings.Contains(nodeText(rs.Body), "if !keep { return false }")
	}, 1)
	pb.Only("R2", p.Call("model/relabel:relabel"), "is applied to the one builder that carries the result of the previous rules", func(l eng.Loc) bool {
		a := eng.CallArgsText(l)
		return len(a) == 2 && a[0] == "cfg" && a[1] == "lb"
	})
	nr := c.Fn("model/relabel:NewRegexp")
	nr.Only("R2", eng.CallNamed("Compile"), "compiles the fully anchored, dot-matches-newline form ^(?s:…)$", func(l eng.Loc) bool {
		call := l.Node.(*ast.CallExpr)
		t := nodeText(call.Args[0])
		return strings.HasPrefix(t, `"^(?s:" + `) && strings.HasSuffix(t, ` + ")$"`)
	})
	c.OnlyIn("R2", eng.Node("Regexp{Regexp: …}", func(g *eng.Graph, n ast.Node) bool {
		cl, ok := n.(*ast.CompositeLit)
		return ok && eng.ExprString(cl.Type) == "Regexp" && len(cl.Elts) > 0
	}), 1, "model/relabel:NewRegexp")
}
