package main

import (
	"go/ast"
	"strings"

	"promverif/eng"
)

// C44.R6 (finding F95): the 'for' state restore finds an alert's ALERTS_FOR_STATE series by the alert's label set, and
// the alert's labels are the *expanded* rule labels over the result's labels (a label that expands to "" is dropped).
// So the samples written for an alert take their labels from the alert — a builder over alert.Labels plus the fixed
// names — and never from the rule's unexpanded labels, whose template text would survive for a dropped label.
func runC44Labels(c *eng.Ctx) {
	p := c.P
	for _, fn := range []string{"sample", "forStateSample"} {
		f := c.Fn("rules:AlertingRule." + fn)
		fromAlert, overlay := 0, 0
		var ruleBase []*ast.AssignStmt
		ast.Inspect(f.Body, func(x ast.Node) bool {
			switch s := x.(type) {
			case *ast.AssignStmt:
				if len(s.Lhs) == 1 && nodeText(s.Lhs[0]) == "lb" && len(s.Rhs) == 1 {
					switch nodeText(s.Rhs[0]) {
					case "labels.NewBuilder(alert.Labels)":
						fromAlert++
						if fn == "forStateSample" {
							ok := false
							for _, cd := range f.CondsOf(s) {
								if cd == "alert != nil=T" {
									ok = true
								}
							}
							if !ok {
								fromAlert = -100
							}
						}
					case "labels.NewBuilder(r.labels)":
						ruleBase = append(ruleBase, s)
					}
				}
			case *ast.CallExpr:
				if nodeText(s.Fun) == "alert.Labels.Range" {
					overlay++
				}
			}
			return true
		})
		ok := fromAlert == 1 && overlay == 0
		if fn == "sample" {
			ok = ok && len(ruleBase) == 0
		} else {
			// the rule's labels serve only the alert-less form (the selector for QueryForStateSeries)
			ok = ok && len(ruleBase) == 1 && len(f.CondsOf(ruleBase[0])) == 0
		}
		c.Check("R6", f.Where(), "the labels of a sample written for an alert are built from alert.Labels (not overlaid on the rule's unexpanded labels)", ok, p.Pos(f.Body.Pos()),
			"a rule label whose template expands to \"\" is absent from the alert but present, as template text, in its ALERTS/ALERTS_FOR_STATE series; the restore looks the series up by the alert's labels and misses it")
	}
	_ = strings.Contains
	_ = eng.SortedKeys[bool]
}
