package main

import (
	"fmt"
	"go/ast"
	"sort"
	"strings"

	"promverif/eng"
)

// C02.R7 (added for seed C02-c): where a sample can be refused for its timestamp.  Whether a sample is too old
// depends on the series (a sample newer than the series' last one is in order however far the head has moved on), so
// ErrTooOldSample may only come out of the per-series decision functions; the appenders themselves may refuse a
// timestamp before looking at the series only as out of bounds, and only with out-of-order ingestion disabled.
func runC02Admit(c *eng.Ctx) {
	p := c.P
	defer runC02Stale(c)
	per := map[string]bool{"tsdb:memSeries.appendable": true, "tsdb:memSeries.appendableHistogram": true, "tsdb:memSeries.appendableFloatHistogram": true}
	sites := map[string][]string{}
	type occ struct{ in, pos, cond string }
	var oob []occ
	for _, fs := range p.AllFuncs() {
		if fs.Decl.Body == nil || !strings.HasSuffix(fs.Pkg.PkgPath, "/tsdb") {
			continue
		}
		name := eng.FuncName(fs.Obj)
		ast.Inspect(fs.Decl.Body, func(n ast.Node) bool {
			rs, ok := n.(*ast.ReturnStmt)
			if !ok {
				return true
			}
			for _, r := range rs.Results {
				switch nodeText(r) {
				case "storage.ErrTooOldSample":
					sites["old"] = append(sites["old"], name+" at "+p.Pos(rs.Pos()))
					if !per[name] {
						sites["oldOutside"] = append(sites["oldOutside"], name+" at "+p.Pos(rs.Pos()))
					}
				case "storage.ErrOutOfBounds":
					if !per[name] {
						f := c.Fn(name)
						conds := f.CondsOf(rs)
						oob = append(oob, occ{name, p.Pos(rs.Pos()), strings.Join(conds, " ; ")})
					}
				}
			}
			return true
		})
	}
	sort.Strings(sites["oldOutside"])
	c.Check("R7", "tsdb", "ErrTooOldSample is returned only by the per-series decision functions appendable / appendableHistogram / appendableFloatHistogram (3 sites)", len(sites["oldOutside"]) == 0 && len(sites["old"]) == 3, "",
		fmt.Sprintf("%d sites; outside: %s", len(sites["old"]), strings.Join(sites["oldOutside"], "; ")))
	for _, o := range oob {
		c.Check("R7", o.in, "a timestamp is refused as out of bounds before the series is looked at only when out-of-order ingestion is off and t is below the appender's minimum ("+o.pos+")", strings.Contains(o.cond, "a.oooTimeWindow == 0 && t < a.minValidTime=T"), o.pos, "conditions: "+o.cond)
	}
	c.Check("R7", "tsdb", "appenders with the out-of-bounds fast path (≥ 3)", len(oob) >= 3, "", fmt.Sprint(len(oob)))
}

// C02.R8 (finding F54): at commit a float staleness marker of a series whose last sample is a histogram is converted
// and put at the END of the batch's histograms.  That is in append order only if no histogram of the same series,
// appended after the marker, sits in the same batch; the batch logic does not track floats, so every append path that
// can queue a stale float has to register it (noteStaleFloat), which makes a following histogram start a new batch.
func runC02Stale(c *eng.Ctx) {
	p := c.P
	n := 0
	for _, fn := range []string{"tsdb:headAppender.Append", "tsdb:headAppenderV2.appendFloat", "tsdb:headAppender.AppendSTZeroSample"} {
		if p.TryFunc(fn) == nil {
			continue
		}
		f := c.Fn(fn)
		var lits []string
		ast.Inspect(f.Body, func(x ast.Node) bool {
			cl, ok := x.(*ast.CompositeLit)
			if ok && nodeText(cl.Type) == "record.RefSample" {
				lits = append(lits, nodeText(cl))
			}
			return true
		})
		for _, l := range lits {
			constV := strings.Contains(l, "V: 0.0") || strings.Contains(l, "V: 0}")
			if constV {
				c.Pass("R8", f.Where(), "queues a constant, non-stale float ("+l+")", "")
				continue
			}
			n++
			if p.TryFunc("tsdb:headAppenderBase.noteStaleFloat") == nil {
				c.Fail("R8", f.Where(), "a float that may be a staleness marker is registered for the batch logic", p.Pos(f.Body.Pos()), "")
				continue
			}
			f.Dom("R8", p.Call("tsdb:headAppenderBase.getCurrentBatch"), p.Call("tsdb:headAppenderBase.noteStaleFloat"))
			f.Has("R8", p.Call("tsdb:headAppenderBase.noteStaleFloat"), 1)
		}
	}
	c.Check("R8", "tsdb", "append paths that can queue a stale float (2)", n == 2, "", fmt.Sprint(n))
	if p.TryFunc("tsdb:headAppenderBase.noteStaleFloat") != nil {
		ns := c.Fn("tsdb:headAppenderBase.noteStaleFloat")
		c.Check("R8", ns.Where(), "registers the series as a float series in typesInBatch when the value is a staleness marker", strings.Contains(nodeText(ns.Body), "if value.IsStaleNaN(v) { a.typesInBatch[s] = stFloat }"), p.Pos(ns.Body.Pos()), nodeText(ns.Body))
	} else {
		c.Fail("R8", "tsdb:headAppenderBase", "a stale float is registered in typesInBatch (noteStaleFloat)", "", "commitFloats appends the converted marker after a histogram of the same series that was appended later: the marker is committed out of order and dropped")
	}
}
