package main

import (
	"fmt"
	"go/ast"
	"sort"
	"strings"

	"promverif/eng"
)

// C02.R7 (added for seed C02-c): where a sample can be refused for its timestamp.  Whether a sample is too old
// depends on the series (a sample newer than the series' last one is in order however far the head has moved on), so
// ErrTooOldSample may only come out of the per-series decision functions; the appenders themselves may refuse a
// timestamp before looking at the series only as out of bounds, and only with out-of-order ingestion disabled.
func runC02Admit(c *eng.Ctx) {
	p := c.P
	per := map[string]bool{"tsdb:memSeries.appendable": true, "tsdb:memSeries.appendableHistogram": true, "tsdb:memSeries.appendableFloatHistogram": true}
	sites := map[string][]string{}
	type occ struct{ in, pos, cond string }
	var oob []occ
	for _, fs := range p.AllFuncs() {
		if fs.Decl.Body == nil || !strings.HasSuffix(fs.Pkg.PkgPath, "/tsdb") {
			continue
		}
		name := eng.FuncName(fs.Obj)
		ast.Inspect(fs.Decl.Body, func(n ast.Node) bool {
			rs, ok := n.(*ast.ReturnStmt)
			if !ok {
				return true
			}
			for _, r := range rs.Results {
				switch nodeText(r) {
				case "storage.ErrTooOldSample":
					sites["old"] = append(sites["old"], name+" at "+p.Pos(rs.Pos()))
					if !per[name] {
						sites["oldOutside"] = append(sites["oldOutside"], name+" at "+p.Pos(rs.Pos()))
					}
				case "storage.ErrOutOfBounds":
					if !per[name] {
						f := c.Fn(name)
						conds := f.CondsOf(rs)
						oob = append(oob, occ{name, p.Pos(rs.Pos()), strings.Join(conds, " ; ")})
					}
				}
			}
			return true
		})
	}
	sort.Strings(sites["oldOutside"])
	c.Check("R7", "tsdb", "ErrTooOldSample is returned only by the per-series decision functions appendable / appendableHistogram / appendableFloatHistogram (3 sites)", len(sites["oldOutside"]) == 0 && len(sites["old"]) == 3, "",
		fmt.Sprintf("%d sites; outside: %s", len(sites["old"]), strings.Join(sites["oldOutside"], "; ")))
	for _, o := range oob {
		c.Check("R7", o.in, "a timestamp is refused as out of bounds before the series is looked at only when out-of-order ingestion is off and t is below the appender's minimum ("+o.pos+")", strings.Contains(o.cond, "a.oooTimeWindow == 0 && t < a.minValidTime=T"), o.pos, "conditions: "+o.cond)
	}
	c.Check("R7", "tsdb", "appenders with the out-of-bounds fast path (≥ 3)", len(oob) >= 3, "", fmt.Sprint(len(oob)))
}
