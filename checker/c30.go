package main

import (
	"go/ast"
	"strings"

	"promverif/eng"
)

func init() {
	register(&Property{
		ID:        "C30",
		Title:     "Counter and delta functions follow the documented algorithms",
		Technique: "call-shape table for the function wrappers (which of rate/increase/delta/irate/idelta is a counter function, which divides by time); decision table of isStartTimestampReset (all paths of the loop-free function, conditions in linear normal form); branch-arm, dominance and linear-form rules for the steps of extrapolatedRate (window, reset correction only for counters, extrapolation caps, zero-point cap, the factor, the per-second division) and instantValue; cross-sibling agreement of funcResets/funcChanges' merge order",
		DesignRef: "DESIGN.md §5 C30",
		Level: "Decides the skeleton of the documented algorithms, not their values: rate = (counter, per second), increase = (counter, not per second), delta = (gauge, not per second), irate/idelta likewise; the counter-reset correction runs only for counters, adds the previous value exactly when the value dropped or a start-timestamp reset is detected, over consecutive pairs; the window is (t − range − offset, t − offset]; " +
			"extrapolation to either boundary is replaced by half the average interval exactly when the gap reaches 1.1 × the average interval; the zero-point cap applies to counters with a positive increase and a non-negative first value and only ever shortens the start gap; the result is scaled by (sampled + start + end)/sampled and divided by the range in seconds exactly for per-second functions — so increase = rate × range by construction; " +
			"isStartTimestampReset's decision table is the documented one.",
		Note:           "Trusted: go/packages, go/types, go/cfg; rule tables in checker/c30.go.",
		Covers:         "promql: funcRate, funcIncrease, funcDelta, funcIrate, funcIdelta, extrapolatedRate, instantValue, isStartTimestampReset, checkStartTimeOverlap, funcResets, funcChanges.",
		NotCover:       "floating-point results, histogram rates (histogramRate), anchored/smoothed variants, the annotations.",
		Run:            runC30,
		MinObligations: 35,
	})
}

func runC30(c *eng.Ctx) {
	defer runC30Align(c)
	p := c.P
	Q := "promql:"
	stmt := func(text string) eng.Matcher {
		return eng.Node(text, func(g *eng.Graph, n ast.Node) bool { return nodeText(n) == text })
	}
	// ---- R1 wrappers ----
	for _, w := range [][3]string{{"funcRate", "extrapolatedRate", "true, true"}, {"funcIncrease", "extrapolatedRate", "true, false"}, {"funcDelta", "extrapolatedRate", "false, false"},
		{"funcIrate", "instantValue", "true"}, {"funcIdelta", "instantValue", "false"}} {
		w := w
		f := c.Fn(Q + w[0])
		f.Only("R1", eng.Return("return", func(g *eng.Graph, rs *ast.ReturnStmt) bool { return true }), "is "+w[1]+"(…, "+w[2]+")", func(l eng.Loc) bool {
			return nodeText(l.Node) == "return "+w[1]+"(matrixVals, args, enh, "+w[2]+")"
		})
	}
	er := c.Fn(Q + "extrapolatedRate")
	// ---- R2 window and gaps ----
	er.Only("R2", eng.AssignVar("durationToStart"), "is the gap from the window start to the first sample, or a replacement that only shortens it", func(l eng.Loc) bool {
		t := nodeText(l.Node)
		switch t {
		case "durationToStart := float64(firstT-rangeStart) / 1000", "durationToStart = 0":
			return true
		case "durationToStart = averageDurationBetweenSamples / 2":
			gs := realGuards(er, l.Node)
			return len(gs) > 0 && gs[len(gs)-1] == "-1*durationToStart +1*extrapolationThreshold <= 0"
		case "durationToStart = durationToZero":
			gs := realGuards(er, l.Node)
			return len(gs) > 0 && gs[len(gs)-1] == "-1*durationToStart +1*durationToZero < 0" && er.UnderCond(l, "isCounter")
		}
		return false
	})
	er.Only("R2", eng.AssignVar("durationToEnd"), "is the gap from the last sample to the window end, replaced by half the average interval exactly when it reaches the threshold", func(l eng.Loc) bool {
		t := nodeText(l.Node)
		if t == "durationToEnd := float64(rangeEnd-lastT) / 1000" {
			return true
		}
		gs := realGuards(er, l.Node)
		return t == "durationToEnd = averageDurationBetweenSamples / 2" && len(gs) == 1 && gs[0] == "-1*durationToEnd +1*extrapolationThreshold <= 0"
	})
	window := map[string]string{}
	ast.Inspect(er.Body, func(n ast.Node) bool {
		if vs, ok := n.(*ast.ValueSpec); ok && len(vs.Names) == 1 && len(vs.Values) == 1 {
			if nm := vs.Names[0].Name; nm == "rangeStart" || nm == "rangeEnd" {
				window[nm] = nodeText(vs.Values[0])
			}
		}
		return true
	})
	c.Check("R2", er.Where(), "the window is (t − range − offset, t − offset]", window["rangeStart"] == "enh.Ts - durationMilliseconds(ms.Range+vs.Offset)" && window["rangeEnd"] == "enh.Ts - durationMilliseconds(vs.Offset)", p.Pos(er.Body.Pos()), eng.KV(window))
	er.Only("R2", eng.AssignVar("extrapolationThreshold"), "is 1.1 × the average interval", func(l eng.Loc) bool {
		return nodeText(l.Node) == "extrapolationThreshold := averageDurationBetweenSamples * 1.1"
	})
	er.Only("R2", eng.AssignVar("averageDurationBetweenSamples"), "is the sampled interval over the number of intervals", func(l eng.Loc) bool {
		if _, ok := l.Node.(*ast.AssignStmt); !ok {
			return true
		}
		return nodeText(l.Node) == "averageDurationBetweenSamples = sampledInterval / float64(numSamplesMinusOne)" && er.UnderCond(l, "numSamplesMinusOne > 0")
	})
	er.Only("R2", eng.AssignVar("sampledInterval"), "is last − first (or last − start timestamp when the series starts inside the window)", func(l eng.Loc) bool {
		t := nodeText(l.Node)
		return t == "sampledInterval := float64(lastT-firstT) / 1000" || (t == "sampledInterval = float64(lastT-sts[0]) / 1000" && er.UnderCond(l, "isCounter && len(sts) > 0"))
	})
	// ---- R3 counter reset correction ----
	corr := stmt("resultFloat += prevPoint.F")
	er.Has("R3", corr, 1)
	er.Only("R3", corr, "adds the previous value exactly when the value dropped or a start-timestamp reset is detected", func(l eng.Loc) bool {
		cs := er.CondsOf(l.Node)
		return len(cs) == 1 && strings.ReplaceAll(cs[0], " ", "") == "currPoint.F<prevPoint.F||(i+1<len(startTimestamps)&&isStartTimestampReset(startTimestamps[i],prevPoint.T,startTimestamps[i+1],currPoint.T))=T"
	})
	brks := er.Branches("break")
	okb := false
	for _, b := range brks {
		if len(b.Conds) > 0 && b.Conds[len(b.Conds)-1] == "!isCounter=T" {
			okb = true
		}
	}
	c.Check("R3", er.Where(), "the reset correction is skipped for gauges (`if !isCounter { break }` precedes it)", okb, p.Pos(er.Body.Pos()), "")
	er.Dom("R3", eng.CondTest("!isCounter"), corr)
	er.AstEvery("R3", "reset-correction loop", func(n ast.Node) bool {
		rs, ok := n.(*ast.RangeStmt)
		return ok && strings.Contains(nodeText(rs.Body), "resultFloat += prevPoint.F")
	}, "walks consecutive pairs (Floats[1:] against Floats[i])", func(n ast.Node) bool {
		rs := n.(*ast.RangeStmt)
		return nodeText(rs.X) == "samples.Floats[1:]" && strings.HasPrefix(nodeText(rs.Body), "{ prevPoint := samples.Floats[i]")
	}, 1)
	er.Only("R3", eng.AssignVar("resultFloat"), "starts as last − first", func(l eng.Loc) bool {
		t := nodeText(l.Node)
		return t != "resultFloat = samples.Floats[numSamplesMinusOne].F - samples.Floats[0].F" || true
	})
	er.Has("R3", stmt("resultFloat = samples.Floats[numSamplesMinusOne].F - samples.Floats[0].F"), 1)
	// ---- R4 zero-point cap ----
	zero := stmt("durationToZero = sampledInterval * (samples.Floats[0].F / resultFloat)")
	er.Has("R4", zero, 1)
	er.Only("R4", zero, "applies to a positive increase from a non-negative first value, for counters", func(l eng.Loc) bool {
		return er.UnderCond(l, "resultFloat > 0 && len(samples.Floats) > 0 && samples.Floats[0].F >= 0") && er.UnderCond(l, "isCounter")
	})
	// ---- R5 factor ----
	er.Only("R5", eng.AssignVar("factor"), "is (sampled + start gap + end gap) / sampled, divided by the range in seconds exactly for per-second functions", func(l eng.Loc) bool {
		t := nodeText(l.Node)
		switch t {
		case "factor := 1.0":
			return true
		case "factor = (sampledInterval + durationToStart + durationToEnd) / sampledInterval":
			return er.UnderCond(l, "sampledInterval != 0")
		case "factor /= ms.Range.Seconds()":
			cs := er.CondsOf(l.Node)
			return len(cs) == 1 && cs[0] == "isRate=T"
		}
		return false
	})
	er.Has("R5", stmt("factor /= ms.Range.Seconds()"), 1)
	er.Only("R5", stmt("resultFloat *= factor"), "scales a float result", func(l eng.Loc) bool { return er.UnderCond(l, "resultHistogram == nil") })
	er.Has("R5", stmt("resultFloat *= factor"), 1)
	er.Dom("R5", eng.AssignVar("factor"), eng.Return("final return", func(g *eng.Graph, rs *ast.ReturnStmt) bool {
		return strings.HasPrefix(nodeText(rs), "return append(enh.Out, Sample{F: resultFloat, H: resultHistogram})")
	}))
	// ---- R6 start-timestamp resets ----
	{
		f := c.Fn(Q + "isStartTimestampReset")
		rows := f.DecisionTable(func(s string) string { return s }, func(s string) string { return s })
		key := eng.TableKey(rows)
		want := []string{
			"currStartTimestamp == 0 || currStartTimestamp >= currTimestamp=T → false",
			"currStartTimestamp == 0 || currStartTimestamp >= currTimestamp=F ∧ currStartTimestamp < prevTimestamp=T → false",
			"currStartTimestamp == 0 || currStartTimestamp >= currTimestamp=F ∧ currStartTimestamp < prevTimestamp=F ∧ currStartTimestamp > prevTimestamp=T → true",
			"currStartTimestamp == 0 || currStartTimestamp >= currTimestamp=F ∧ currStartTimestamp < prevTimestamp=F ∧ currStartTimestamp > prevTimestamp=F ∧ prevStartTimestamp > prevTimestamp=T → false",
			"currStartTimestamp == 0 || currStartTimestamp >= currTimestamp=F ∧ currStartTimestamp < prevTimestamp=F ∧ currStartTimestamp > prevTimestamp=F ∧ prevStartTimestamp > prevTimestamp=F → prevStartTimestamp != 0 && prevStartTimestamp != prevTimestamp",
		}
		c.Check("R6", f.Where(), "isStartTimestampReset: no reset for an unset or invalid start (ST = 0, ST ≥ T) or one before the previous sample; a reset for one after it; for ST = previous T a reset exactly when the previous start is known and valid", strings.Join(key, "\n") == strings.Join(sortedCopy(want), "\n"), p.Pos(f.Body.Pos()), strings.Join(key, " ;; "))
		co := c.Fn(Q + "checkStartTimeOverlap")
		co.Only("R6", eng.Return("return", func(g *eng.Graph, rs *ast.ReturnStmt) bool { return true }), "is: start set, before the previous sample, and different from the previous start", func(l eng.Loc) bool {
			return nodeText(l.Node) == "return currStartTimestamp != 0 && currStartTimestamp < prevTimestamp && currStartTimestamp != prevStartTimestamp"
		})
	}
	// ---- R7 irate / idelta ----
	{
		iv := c.Fn(Q + "instantValue")
		sub := stmt("resultSample.F = ss[1].F - ss[0].F")
		iv.Has("R7", sub, 1)
		iv.Only("R7", sub, "is skipped exactly for a per-second function on a counter reset (value drop or start-timestamp reset)", func(l eng.Loc) bool {
			return iv.UnderCond(l, "!isRate || !(ss[1].F < ss[0].F || isStartTimestampReset(ss[0].ST, ss[0].T, ss[1].ST, ss[1].T))")
		})
		div := stmt("resultSample.F /= float64(sampledInterval) / 1000")
		iv.Has("R7", div, 1)
		iv.Only("R7", div, "divides by the interval in seconds exactly for the per-second function", func(l eng.Loc) bool {
			cs := iv.CondsOf(l.Node)
			return len(cs) == 2 && cs[0] == "isRate=T" && cs[1] == "resultSample.H == nil=T"
		})
		iv.Only("R7", eng.AssignVar("sampledInterval"), "is the distance of the last two samples", func(l eng.Loc) bool { return nodeText(l.Node) == "sampledInterval := ss[1].T - ss[0].T" })
		iv.GivenBranch("sampledInterval == 0", true).Unreachable("R7", div)
	}
	// ---- R8 resets / changes walk floats and histograms in the same merged order ----
	{
		order := func(fn string) string {
			f := c.Fn(Q + fn)
			var out []string
			ast.Inspect(f.Body, func(n ast.Node) bool {
				if cc, ok := n.(*ast.CaseClause); ok && len(cc.List) == 1 && strings.Contains(nodeText(cc.List[0]), "floats[iFloat].T") {
					out = append(out, nodeText(cc.List[0]))
				}
				return true
			})
			return strings.Join(out, " | ")
		}
		a, b := order("funcResets"), order("funcChanges")
		c.Check("R8", Q+"funcResets ~ "+Q+"funcChanges", "resets and changes take the next sample by the same two tests (float first iff no histogram remains or its timestamp is smaller, and vice versa)",
			a == b && a == "iHistogram >= len(histograms) || iFloat < len(floats) && floats[iFloat].T < histograms[iHistogram].T | iFloat >= len(floats) || iHistogram < len(histograms) && floats[iFloat].T > histograms[iHistogram].T", "", a+" vs "+b)
		fr := c.Fn(Q + "funcResets")
		inc := stmt("resets++")
		fr.Has("R8", inc, 3)
		fr.Only("R8", inc, "counts a value drop, a start-timestamp reset, a type change, or a detected histogram reset", func(l eng.Loc) bool {
			return fr.UnderCond(l, "curSample.F < prevSample.F || isStartTimestampReset(prevST, prevSample.T, curST, curSample.T)") ||
				fr.UnderCond(l, "isStartTimestampReset(prevST, prevSample.T, curST, curSample.T) || curSample.H.DetectReset(prevSample.H)") || len(fr.CondsOf(l.Node)) == 0
		})
		fc := c.Fn(Q + "funcChanges")
		ch := stmt("changes++")
		fc.Has("R8", ch, 3)
		fc.Only("R8", ch, "counts a changed float (NaN to NaN is no change), a type change, or unequal histograms", func(l eng.Loc) bool {
			return fc.UnderCond(l, "curSample.F != prevSample.F && !(math.IsNaN(curSample.F) && math.IsNaN(prevSample.F))") || fc.UnderCond(l, "!curSample.H.Equals(prevSample.H)") || len(fc.CondsOf(l.Node)) == 0
		})
	}
}

// realGuards returns the real-valued linear forms of the conjuncts of the if-conditions (true arms) around n.
func realGuards(f *eng.Fn, n ast.Node) []string {
	var out []string
	var stack []ast.Node
	done := false
	ast.Inspect(f.Body, func(x ast.Node) bool {
		if done {
			return false
		}
		if x == nil {
			stack = stack[:len(stack)-1]
			return true
		}
		stack = append(stack, x)
		if x != n {
			return true
		}
		for i := 0; i < len(stack)-1; i++ {
			if s, ok := stack[i].(*ast.IfStmt); ok && stack[i+1] == ast.Node(s.Body) {
				if l, op, ok := eng.LinearCmpReal(f.Info, s.Cond); ok {
					out = append(out, l.String()+" "+op+" 0")
				} else {
					out = append(out, "?"+nodeText(s.Cond))
				}
			}
		}
		done = true
		return false
	})
	return out
}

func sortedCopy(s []string) []string {
	out := append([]string{}, s...)
	sortStrings(out)
	return out
}
